"""Equivalence check for refactoring 1 (ceos_alos2/transformers.py).

Run as a script (``PYTHONPATH=<worktree> python equiv.py``, exit status 0 on success) or
with pytest (``python -m pytest -q -p no:cacheprovider equiv.py``).  Every case calls one of
the touched functions (``remove_spares``, ``item_type``, ``transform_nested``, ``as_group``, and
their callers up to ``sar_leader.metadata.transform_metadata``) on deep copies of the inputs and
compares the canonical, type- and order-preserving serialisation of the result (or the type
and message of the exception), plus the state of the inputs after the call, with a recording
made with the UNCHANGED code (``python equiv.py --record`` rewrites the recording).
Long serialisations are stored as sha256 digests.
"""
import copy
import hashlib
import math
import pathlib
import pprint
import random
import struct
import sys

import numpy as np

from ceos_alos2.hierarchy import Group, Variable

# --------------------------------------------------------------------------
# canonical, type-preserving and order-preserving serialisation of results
# --------------------------------------------------------------------------


def canon(obj):
    if isinstance(obj, Group):
        return (
            "Group",
            obj.path,
            obj.url,
            canon(obj.attrs),
            [(canon(k), canon(v)) for k, v in obj.data.items()],
        )
    if isinstance(obj, Variable):
        return ("Variable", canon(obj.dims), canon(obj.data), canon(obj.attrs))
    if isinstance(obj, np.ndarray):
        if obj.dtype.kind in "mM":
            values = obj.astype("int64").tolist()
        else:
            values = obj.tolist()
        return ("ndarray", str(obj.dtype), obj.shape, canon(values))
    if isinstance(obj, np.generic):
        return ("npscalar", type(obj).__name__, str(obj.dtype), repr(obj.tolist()))
    if isinstance(obj, dict):
        return (type(obj).__name__, [(canon(k), canon(v)) for k, v in obj.items()])
    if isinstance(obj, (list, tuple)):
        return (type(obj).__name__, [canon(v) for v in obj])
    if isinstance(obj, float):
        return ("float", "nan" if math.isnan(obj) else repr(obj))
    if isinstance(obj, complex):
        return ("complex", canon(obj.real), canon(obj.imag))
    if obj is None or isinstance(obj, (bool, int, str, bytes)):
        return (type(obj).__name__, repr(obj))
    if callable(obj):
        return ("callable", getattr(obj, "__name__", type(obj).__name__))
    return ("other", type(obj).__module__, type(obj).__name__, repr(obj))


def run(func, *args, **kwargs):
    """call ``func`` on private copies; record result or exception, and the inputs afterwards"""
    args = copy.deepcopy(args)
    kwargs = copy.deepcopy(kwargs)
    try:
        result = ("ok", canon(func(*args, **kwargs)))
    except Exception as e:  # noqa: BLE001
        result = ("raises", type(e).__name__, str(e))
    return repr((result, ("inputs-after", canon(args), canon(kwargs))))


def digest(text):
    if len(text) <= 300:
        return text
    status = "ok" if text.startswith("(('ok'") else "raises"
    return f"sha256[{status}]:{hashlib.sha256(text.encode()).hexdigest()}:{len(text)}"


# --------------------------------------------------------------------------
# synthesise bytes for a construct declaration (all CEOS fields are fixed
# width ASCII), so that the real parser produces the transformers' inputs
# --------------------------------------------------------------------------


def _ctx_get(expr, ctx):
    return expr(ctx) if callable(expr) else expr


def synthesize(con, rng, overrides=None, blank_rate=0.0):
    """return bytes parsable by ``con``

    ``overrides`` maps dotted paths (array indices omitted) to the decoded value
    the field should have (ints / floats / strings), or to a callable ``(rng) -> value``.
    """
    import construct

    from ceos_alos2 import datatypes

    overrides = overrides or {}

    def text(value, width):
        raw = str(value)
        assert len(raw) <= width, (raw, width)
        return raw.rjust(width).encode("ascii")

    def leaf_value(kind, path, width):
        if path in overrides:
            value = overrides[path]
            return value(rng) if callable(value) else value
        if blank_rate and rng.random() < blank_rate:
            return ""
        if kind == "int":
            return rng.randrange(0, 10 ** min(width - 1, 4))
        if kind == "float":
            return f"{rng.uniform(-1000, 1000):.{max(0, min(5, width - 6))}f}"
        alphabet = "ABCDEFGHIJKLMNOPQRSTUVWXYZ0123456789-"
        return "".join(rng.choice(alphabet) for _ in range(rng.randrange(0, min(width, 12) + 1)))

    def gen(con, ctx, path):
        if isinstance(con, construct.Renamed):
            return gen(con.subcon, ctx, path)
        if isinstance(con, construct.Struct):
            sub = construct.Container()
            sub["_"] = ctx
            chunks = []
            for sc in con.subcons:
                subpath = f"{path}.{sc.name}" if path else sc.name
                data, value = gen(sc, sub, subpath)
                sub[sc.name] = value
                chunks.append(data)
            return b"".join(chunks), sub
        if isinstance(con, construct.Array):
            count = _ctx_get(con.count, ctx)
            chunks, values = [], []
            for _ in range(count):
                data, value = gen(con.subcon, ctx, path)
                chunks.append(data)
                values.append(value)
            return b"".join(chunks), values
        if isinstance(con, construct.FormatField):
            value = overrides.get(path, 0)
            return struct.pack(con.fmtstr, value), value
        if isinstance(con, construct.Enum):
            choices = sorted(con.encmapping.values(), key=repr)
            value = overrides.get(path, None)
            if value is None:
                value = rng.choice(choices)
            width = con.subcon._sizeof(ctx, path)
            return text(value, width), value
        if isinstance(con, datatypes.AsciiInteger):
            width = con._sizeof(ctx, path)
            value = leaf_value("int", path, width)
            return text(value, width), (-1 if value == "" else int(value))
        if isinstance(con, datatypes.AsciiFloat):
            width = con._sizeof(ctx, path)
            value = leaf_value("float", path, width)
            return text(value, width), value
        if isinstance(con, datatypes.PaddedString):
            width = con._sizeof(ctx, path)
            value = leaf_value("str", path, width)
            return text(value, width), value
        if isinstance(con, construct.Adapter):  # Metadata, Factor, AsciiComplex
            return gen(con.subcon, ctx, path)
        raise TypeError(f"cannot synthesise {con!r} at {path}")

    data, _ = gen(con, construct.Container(), "")
    return data


def preamble(record_length, sequence_number=1, subtypes=(18, 10, 18, 20)):
    return {
        "preamble.record_sequence_number": sequence_number,
        "preamble.first_record_subtype": subtypes[0],
        "preamble.record_type": subtypes[1],
        "preamble.second_record_subtype": subtypes[2],
        "preamble.third_record_subtype": subtypes[3],
        "preamble.record_length": record_length,
    }


def parse(con, data):
    from ceos_alos2.utils import to_dict

    return to_dict(con.parse(data))


def sample_records(seed, blank_rate=0.0, designator="UTM-PROJECTION", n_points=3, n_channels=2):
    """parse synthesised bytes of every SAR leader record kind with the real declarations"""
    from ceos_alos2.sar_leader import (
        attitude,
        data_quality_summary,
        dataset_summary,
        facility_related_data,
        map_projection,
        platform_position,
        radiometric_data,
    )

    rng = random.Random(seed)

    def date(rng):
        return f"{rng.randrange(1990, 2030)} {rng.randrange(1, 13):02d} {rng.randrange(1, 29):02d}"

    def timestamp(rng):
        return (
            f"{rng.randrange(1990, 2030)}{rng.randrange(1, 13):02d}{rng.randrange(1, 29):02d}"
            f"{rng.randrange(24):02d}{rng.randrange(60):02d}{rng.randrange(60):02d}"
            f"{rng.randrange(1000):03d}"
        )

    specs = {
        "dataset_summary": (
            dataset_summary.dataset_summary_record,
            preamble(4096) | {"scene_center_time": timestamp},
        ),
        "map_projection": (
            map_projection.map_projection_record,
            preamble(1620) | {"map_projection_designator": designator},
        ),
        "platform_position": (
            platform_position.platform_position_record,
            preamble(4680)
            | {
                "datetime_of_first_point.date": date,
                "datetime_of_first_point.seconds_of_day": lambda rng: f"{rng.uniform(0, 86400):.6f}",
                "occurrence_flag_of_a_leap_second": lambda rng: rng.randrange(2),
            },
        ),
        "attitude": (
            attitude.attitude_record,
            preamble(12 + 4 + n_points * 120 + 20)
            | {
                "number_of_points": n_points,
                "data_points.time.day_of_year": lambda rng: rng.randrange(1, 366),
                "data_points.time.millisecond_of_day": lambda rng: rng.randrange(86400000),
                **{
                    f"data_points.{section}.{name}_error": (lambda rng: rng.randrange(3))
                    for section in ("attitude", "rates")
                    for name in ("pitch", "roll", "yaw")
                },
            },
        ),
        "radiometric_data": (radiometric_data.radiometric_data_record, preamble(9860)),
        "data_quality_summary": (
            data_quality_summary.data_quality_summary_record,
            preamble(1620) | {"number_of_channels": n_channels},
        ),
        "facility_related_data_1": (
            facility_related_data.facility_related_data_record,
            preamble(12 + 4 + 50 + 40) | {"record_sequence_number": lambda rng: rng.randrange(0, 6)},
        ),
        "facility_related_data_5": (
            facility_related_data.facility_related_data_5_record,
            preamble(5000) | {"prf_switching_flag": lambda rng: rng.randrange(2)},
        ),
    }
    rates = {name: blank_rate for name in specs}
    # fields without which the transformers raise are always filled in via the overrides
    return {
        name: parse(con, synthesize(con, rng, overrides, blank_rate=rates[name]))
        for name, (con, overrides) in specs.items()
    }


# --------------------------------------------------------------------------
# harness
# --------------------------------------------------------------------------

BEGIN = "# --- BEGIN " + "EXPECTED (recorded from the unchanged code) ---"
END = "# --- END " + "EXPECTED ---"


def main(build_cases, expected, file):
    cases = build_cases()
    ids = [case_id for case_id, _ in cases]
    assert len(ids) == len(set(ids)), "duplicate case ids"
    actual = {case_id: digest(thunk()) for case_id, thunk in cases}

    if "--record" in sys.argv:
        path = pathlib.Path(file)
        source = path.read_text()
        head, rest = source.split(BEGIN, 1)
        _, tail = rest.split(END, 1)
        block = "EXPECTED = " + pprint.pformat(actual, width=100, sort_dicts=False)
        path.write_text(f"{head}{BEGIN}\n{block}\n{END}{tail}")
        print(f"recorded {len(actual)} cases")
        return 0

    failures = []
    for case_id in ids:
        if case_id not in expected:
            failures.append((case_id, "<not recorded>", actual[case_id]))
        elif expected[case_id] != actual[case_id]:
            failures.append((case_id, expected[case_id], actual[case_id]))
    missing = sorted(set(expected) - set(ids))
    for case_id, want, got in failures:
        print(f"MISMATCH {case_id}\n  expected: {want}\n  actual:   {got}")
    if missing:
        print("cases recorded but not run:", missing)
    n_raises = sum(1 for value in actual.values() if "raises" in value[:16])
    print(
        f"{len(ids) - len(failures)}/{len(ids)} cases identical to the recording"
        f" ({len(ids) - n_raises} results, {n_raises} exceptions)"
    )
    return 1 if failures or missing else 0


# --------------------------------------------------------------------------
# cases: ceos_alos2/transformers.py
# --------------------------------------------------------------------------
import collections

from ceos_alos2 import transformers

Pair = collections.namedtuple("Pair", ["first", "second"])


def build_cases():
    cases = []

    def add(case_id, func, *args, **kwargs):
        cases.append((case_id, lambda: run(func, *args, **kwargs)))

    # ---- remove_spares
    keys = [
        "spare", "blanks", "spare1", "spare12", "blanks1", "blanks20", "spare_values",
        "blank_page", "blank", "spar", "sparex", "blanksx", "spareblanks", "spareblanks3",
        "blanksspare", "blanksspare1", "spare1a", "spare 1", "spare-1", "spare١",
        "spare²", "spare①", "Spare1", "BLANKS", "", "a", "sparespare", "blanksblanks",
        "spare1blanks", "xspare1", "spare1.5", "blanks\n", "spare01", "spare１",
    ]
    add("remove_spares/flat-keys", transformers.remove_spares, {k: i for i, k in enumerate(keys)})
    for k in keys:
        add(f"remove_spares/key[{k!r}]", transformers.remove_spares, {k: {k: [{k: 1}]}})
    add("remove_spares/nested-dict", transformers.remove_spares, {"a": {"b": {"blanks": ""}}})
    add("remove_spares/nested-list", transformers.remove_spares, {"a": [{"b": {"blanks": ""}}]})
    add(
        "remove_spares/list-of-lists",
        transformers.remove_spares,
        {"a": [[{"spare1": 1, "b": 2}], [1, "x", None], {"blanks": 1, "c": [{"spare": 1}]}]},
    )
    add(
        "remove_spares/tuples-are-opaque",
        transformers.remove_spares,
        {"a": ({"spare1": 1}, {"units": "m"}), "b": ([{"blanks": 1}],), "spare3": (1, 2)},
    )
    add("remove_spares/top-level-list", transformers.remove_spares, [{"spare1": 1, "a": 2}, 3, [4]])
    add("remove_spares/top-level-tuple", transformers.remove_spares, ({"spare1": 1},))
    for value in [1, None, "spare1", 1.5, b"blanks", (), [], {}, True]:
        add(f"remove_spares/scalar[{value!r}]", transformers.remove_spares, value)
    add(
        "remove_spares/ordered-dict",
        transformers.remove_spares,
        collections.OrderedDict([("z", 1), ("spare1", 2), ("a", collections.OrderedDict(blanks=1))]),
    )
    add("remove_spares/int-key", transformers.remove_spares, {1: 2})
    add("remove_spares/nested-int-key", transformers.remove_spares, {"a": [{"b": {None: 2}}]})
    add("remove_spares/tuple-key", transformers.remove_spares, {("spare1",): 2})
    add("remove_spares/bytes-key", transformers.remove_spares, {b"spare1": 2})
    add(
        "remove_spares/order",
        transformers.remove_spares,
        {"z": 1, "spare1": 0, "y": {"blanks": 0, "b": 1, "a": 2}, "x": [{"q": 1, "spare": 2, "p": 3}]},
    )

    # ---- item_type
    values = [
        (), ((), []), ([],), ([], {}), ({}, {}), ({},), ({"a": 1}, {"b": 2}, 3), (1, 2, 3),
        ("d", [1], {}), (None,), ((),), (({},),), [], ["abc"], [{}], [()], {}, {"a": 1},
        collections.OrderedDict(a=1), collections.defaultdict(list), "abc", "", b"x", 1, 1.5,
        None, True, Pair({}, {}), Pair(1, {}), Pair([], {}), range(3), {1, 2}, frozenset(),
        (collections.OrderedDict(), {}),
    ]
    for index, value in enumerate(values):
        add(f"item_type/{index}[{value!r}]", transformers.item_type, ("key", value))
        add(f"item_type/list-item/{index}", transformers.item_type, ["key", value])
    add("item_type/three-elements", transformers.item_type, ("key", {}, "ignored"))
    add("item_type/string-item", transformers.item_type, "ab")
    add("item_type/short-item", transformers.item_type, ("key",))
    add("item_type/empty-item", transformers.item_type, ())
    add("item_type/not-iterable", transformers.item_type, 1)
    add("item_type/dict-item", transformers.item_type, {"a": 1, "b": ({}, {})})

    # ---- transform_nested
    nested = [
        [{"a": {"b": 1, "c": 2}}, {"a": {"b": 2, "c": 3}}, {"a": {"b": 3, "c": 4}}],
        [
            {"a": {"b": 1, "c": 2}, "d": {"e": 3}},
            {"a": {"b": 2, "c": 3}, "d": {"e": 4}},
            {"a": {"b": 3, "c": 4}, "d": {"e": 5}},
        ],
        [{"a": 1}, {"a": 2}, {"a": 3}],
        [{"a": 1}],
        [{}],
        [{}, {}],
        [{"a": 1, "b": 2}, {"b": 3, "c": 4}],
        [{"a": [1]}, {"a": [2]}],
        [{"a": (1, {"units": "m"})}, {"a": (2, {"units": "m"})}],
        [{"a": {"b": {"c": 1}}}, {"a": {"b": {"c": 2}}}],
        [{"a": {"b": 1}}, {"a": 2}],
        [{"a": 1}, 2],
        [{"a": 1}, [1]],
        [{"a": 1}, None],
        [1, {"a": 1}],
        [],
        [1, 2],
        [[{"a": 1}]],
        {"a": [{"b": 1}, {"b": 2}], "c": 3, "d": [], "e": [1, 2], "f": {"g": [{"h": 1}]}},
        {"a": [{"b": [{"c": 1}]}, {"b": [{"c": 2}]}]},
        {},
        {"a": [{"b": 1}, 2]},
        collections.OrderedDict(z=[{"b": 1}], a=[{"c": 2}]),
        1,
        None,
        "abc",
        ({"a": 1},),
        ([{"a": 1}], {}),
        [collections.OrderedDict(a=1), collections.OrderedDict(a=2)],
    ]
    for index, value in enumerate(nested):
        add(f"transform_nested/{index}", transformers.transform_nested, value)

    # ---- separate_attrs / as_variable (not modified, but used by as_group)
    for index, value in enumerate(
        [
            [(1, {"abc": "def"}), (2, {"abc": "def"}), (3, {"abc": "def"})],
            [(6, {"a": 1}), (2, {"a": 2})],
            [6, 2, 3],
            [],
            [()],
            [(1,)],
            [(1, {}), 2],
            [(1, {}, 3)],
            (1, {}),
            None,
        ]
    ):
        add(f"separate_attrs/{index}", transformers.separate_attrs, value)
    for index, value in enumerate(
        [(1, {"a": 1}), ("d1", [1, 2], {"b": 3}), (["x", "y"], [[1]], {}), (1,), (1, 2, 3, 4), [1, {}],
         {"a": 1, "b": 2}, "ab", 5]
    ):
        add(f"as_variable/{index}", transformers.as_variable, value)

    # ---- as_group
    groups = [
        ({}, {"a": 1}),
        {"a": (1, {})},
        {"a": ({}, {"b": 2})},
        {"a": ({"c": ("d", [1, 2], {})}, {"b": 2})},
        {},
        ({}, {}),
        {"attr": "x", "var": (1, {"u": "m"}), "grp": {"inner": 2}, "arr": [1, 2, 3]},
        # order: groups always after variables, attributes kept in order
        {"g1": {}, "v1": (1, {}), "a1": 1, "g2": ({}, {"x": 1}), "v2": ("d", [1], {}), "a2": None},
        # additional attrs win over collected attributes
        ({"a": 1, "b": 2}, {"b": 3, "c": 4}),
        ({"a": 1, "sub": ({"a": 2}, {"a": 3})}, {"z": 0}),
        {"deep": {"deeper": {"deepest": ({"v": (["x"], [1], {"k": "v"})}, {"n": 1})}}},
        {"lists": [1, 2]},
        {"pair-list": [(1, {}), (2, {})]},
        {"empty-list": []},
        {"long-list": [1, 2, 3, 4]},
        {"var3": ("x", [1, 2], {"a": 1}), "var2": ([1, 2], {"a": 1})},
        {"bad": ()},
        {"bad": (1,)},
        {"bad": (1, 2, 3, 4)},
        {"bad": ({},)},
        {"bad": ({}, {}, {})},
        {"sub": {"bad": ()}},
        ({},),
        ({}, {}, {}),
        (),
        ({"a": 1}, None),
        ({"a": 1}, [("b", 2)]),
        [("a", 1)],
        None,
        1,
        "abc",
        (None, {}),
        ([("a", 1)], {}),
        collections.OrderedDict(b=(1, {}), a={"x": 1}, c=3),
        ({"a": collections.OrderedDict(x=1)}, collections.OrderedDict(y=2)),
        {1: (1, {}), 2: {}, 3: "x"},
        {"np": (["x"], np.arange(3), {})},
        {"pair": Pair(1, {}), "pair-group": Pair({}, {"a": 1})},
    ]
    for index, value in enumerate(groups):
        add(f"as_group/{index}", transformers.as_group, value)

    # ---- realistic inputs: everything the SAR leader reader feeds through these helpers
    from ceos_alos2.sar_leader import metadata

    for seed, kwargs in enumerate(
        [
            {},
            {"designator": "UPS-X", "n_points": 1, "n_channels": 1},
            {"designator": "LCC-CONIC", "n_points": 0, "n_channels": 0, "blank_rate": 0.3},
            {"designator": "MER-CATOR", "n_points": 7, "n_channels": 8, "blank_rate": 0.05},
        ]
    ):
        records = sample_records(seed, **kwargs)
        for name, record in records.items():
            add(f"records/{seed}/remove_spares/{name}", transformers.remove_spares, record)
            add(f"records/{seed}/transform_nested/{name}", transformers.transform_nested, record)
        add(
            f"records/{seed}/transform_nested/points",
            transformers.transform_nested,
            records["attitude"]["data_points"],
        )
        leader = dict(records)
        leader["map_projection"] = [records["map_projection"]]
        add(f"records/{seed}/transform_metadata", metadata.transform_metadata, leader)

    return cases


# --- BEGIN EXPECTED (recorded from the unchanged code) ---
EXPECTED = {'remove_spares/flat-keys': 'sha256[ok]:3e8fd96d7fe4e803486e1372d0cfdd077eaaa74be00766a4637e0700b766c750:2234',
 "remove_spares/key['spare']": "(('ok', ('dict', [])), ('inputs-after', ('tuple', [('dict', "
                               '[((\'str\', "\'spare\'"), (\'dict\', [((\'str\', "\'spare\'"), '
                               '(\'list\', [(\'dict\', [((\'str\', "\'spare\'"), (\'int\', '
                               "'1'))])]))]))])]), ('dict', [])))",
 "remove_spares/key['blanks']": "(('ok', ('dict', [])), ('inputs-after', ('tuple', [('dict', "
                                '[((\'str\', "\'blanks\'"), (\'dict\', [((\'str\', "\'blanks\'"), '
                                '(\'list\', [(\'dict\', [((\'str\', "\'blanks\'"), (\'int\', '
                                "'1'))])]))]))])]), ('dict', [])))",
 "remove_spares/key['spare1']": "(('ok', ('dict', [])), ('inputs-after', ('tuple', [('dict', "
                                '[((\'str\', "\'spare1\'"), (\'dict\', [((\'str\', "\'spare1\'"), '
                                '(\'list\', [(\'dict\', [((\'str\', "\'spare1\'"), (\'int\', '
                                "'1'))])]))]))])]), ('dict', [])))",
 "remove_spares/key['spare12']": "(('ok', ('dict', [])), ('inputs-after', ('tuple', [('dict', "
                                 '[((\'str\', "\'spare12\'"), (\'dict\', [((\'str\', '
                                 '"\'spare12\'"), (\'list\', [(\'dict\', [((\'str\', '
                                 '"\'spare12\'"), (\'int\', \'1\'))])]))]))])]), (\'dict\', [])))',
 "remove_spares/key['blanks1']": "(('ok', ('dict', [])), ('inputs-after', ('tuple', [('dict', "
                                 '[((\'str\', "\'blanks1\'"), (\'dict\', [((\'str\', '
                                 '"\'blanks1\'"), (\'list\', [(\'dict\', [((\'str\', '
                                 '"\'blanks1\'"), (\'int\', \'1\'))])]))]))])]), (\'dict\', [])))',
 "remove_spares/key['blanks20']": "(('ok', ('dict', [])), ('inputs-after', ('tuple', [('dict', "
                                  '[((\'str\', "\'blanks20\'"), (\'dict\', [((\'str\', '
                                  '"\'blanks20\'"), (\'list\', [(\'dict\', [((\'str\', '
                                  '"\'blanks20\'"), (\'int\', \'1\'))])]))]))])]), (\'dict\', '
                                  '[])))',
 "remove_spares/key['spare_values']": 'sha256[ok]:b5fc5f2d19ae4a71aeea44923d8d89e163c1aa215df060f55d109d29a414ee08:351',
 "remove_spares/key['blank_page']": 'sha256[ok]:560241644caaadfd709d7954db6b23624c8728e0a88c77d9ef02098809b6dd1f:339',
 "remove_spares/key['blank']": 'sha256[ok]:ba165b7e9a9eb2cceae856e18dfd7518f3ef0b56273c4b2f412ab8a6e2413b45:309',
 "remove_spares/key['spar']": 'sha256[ok]:67cfe1799b564d4e5e2460d76f27e6166eb2ae06d3b7542c53ad7db68d55ac0a:303',
 "remove_spares/key['sparex']": 'sha256[ok]:c8520d78b84154a6aa3b3bc2a723f9c4a7cc27a0f1b3014a083918d10cd6e5a1:315',
 "remove_spares/key['blanksx']": 'sha256[ok]:dc55c16a60b47e1aa24704253506f1e04e21cdd1ad9c4d8a903c255d8bec3bc9:321',
 "remove_spares/key['spareblanks']": "(('ok', ('dict', [])), ('inputs-after', ('tuple', [('dict', "
                                     '[((\'str\', "\'spareblanks\'"), (\'dict\', [((\'str\', '
                                     '"\'spareblanks\'"), (\'list\', [(\'dict\', [((\'str\', '
                                     '"\'spareblanks\'"), (\'int\', \'1\'))])]))]))])]), '
                                     "('dict', [])))",
 "remove_spares/key['spareblanks3']": "(('ok', ('dict', [])), ('inputs-after', ('tuple', [('dict', "
                                      '[((\'str\', "\'spareblanks3\'"), (\'dict\', [((\'str\', '
                                      '"\'spareblanks3\'"), (\'list\', [(\'dict\', [((\'str\', '
                                      '"\'spareblanks3\'"), (\'int\', \'1\'))])]))]))])]), '
                                      "('dict', [])))",
 "remove_spares/key['blanksspare']": 'sha256[ok]:8f7d552d88d88a3abe12d25ea2565c536bbf30e455562c76cdd5b845d431ac28:345',
 "remove_spares/key['blanksspare1']": 'sha256[ok]:77020624f032401d91bd7b07aff04a1d2a05435b1ad61a3a034fde88fb266743:351',
 "remove_spares/key['spare1a']": 'sha256[ok]:27b5264e79170f886cebb5faaa38d38b26d1688e043719222e2ebc84b32f7500:321',
 "remove_spares/key['spare 1']": 'sha256[ok]:195a36191f94a53b52185bc84fe9b705e16724dc809b0c9181380d2e24b9d76e:321',
 "remove_spares/key['spare-1']": 'sha256[ok]:0c35325016fefb996b188f2f988612a44819b6f908d5509a5132480a41517829:321',
 "remove_spares/key['spare١']": "(('ok', ('dict', [])), ('inputs-after', ('tuple', [('dict', "
                                '[((\'str\', "\'spare١\'"), (\'dict\', [((\'str\', "\'spare١\'"), '
                                '(\'list\', [(\'dict\', [((\'str\', "\'spare١\'"), (\'int\', '
                                "'1'))])]))]))])]), ('dict', [])))",
 "remove_spares/key['spare²']": "(('ok', ('dict', [])), ('inputs-after', ('tuple', [('dict', "
                                '[((\'str\', "\'spare²\'"), (\'dict\', [((\'str\', "\'spare²\'"), '
                                '(\'list\', [(\'dict\', [((\'str\', "\'spare²\'"), (\'int\', '
                                "'1'))])]))]))])]), ('dict', [])))",
 "remove_spares/key['spare①']": "(('ok', ('dict', [])), ('inputs-after', ('tuple', [('dict', "
                                '[((\'str\', "\'spare①\'"), (\'dict\', [((\'str\', "\'spare①\'"), '
                                '(\'list\', [(\'dict\', [((\'str\', "\'spare①\'"), (\'int\', '
                                "'1'))])]))]))])]), ('dict', [])))",
 "remove_spares/key['Spare1']": 'sha256[ok]:42aea1ab18727eeeafc066f8e4e7135198b97be44c7bc4f1fa3b8d695a8a81d2:315',
 "remove_spares/key['BLANKS']": 'sha256[ok]:d8cbec1c2180d202af34ae4e885b172a3798d3f7b618597d591aa4c4ab2be634:315',
 "remove_spares/key['']": '((\'ok\', (\'dict\', [((\'str\', "\'\'"), (\'dict\', [((\'str\', '
                          '"\'\'"), (\'list\', [(\'dict\', [((\'str\', "\'\'"), (\'int\', '
                          "'1'))])]))]))])), ('inputs-after', ('tuple', [('dict', [(('str', "
                          '"\'\'"), (\'dict\', [((\'str\', "\'\'"), (\'list\', [(\'dict\', '
                          '[((\'str\', "\'\'"), (\'int\', \'1\'))])]))]))])]), (\'dict\', [])))',
 "remove_spares/key['a']": '((\'ok\', (\'dict\', [((\'str\', "\'a\'"), (\'dict\', [((\'str\', '
                           '"\'a\'"), (\'list\', [(\'dict\', [((\'str\', "\'a\'"), (\'int\', '
                           "'1'))])]))]))])), ('inputs-after', ('tuple', [('dict', [(('str', "
                           '"\'a\'"), (\'dict\', [((\'str\', "\'a\'"), (\'list\', [(\'dict\', '
                           '[((\'str\', "\'a\'"), (\'int\', \'1\'))])]))]))])]), (\'dict\', [])))',
 "remove_spares/key['sparespare']": 'sha256[ok]:97c99c3327e058eeeea5d1207bdef47d3d10c343d93f99cf24589568b1952265:339',
 "remove_spares/key['blanksblanks']": 'sha256[ok]:a45e08bf2f4a59c9db83357d2271e33199756350ce56f267cf28d8741b00abfe:351',
 "remove_spares/key['spare1blanks']": 'sha256[ok]:48df3ef7c628fa4e3f7a01234013f090282854ac0847e9c1f0fa4d1219e4975a:351',
 "remove_spares/key['xspare1']": 'sha256[ok]:5688bbce7b188c7c490e51e49006dc74b4ad3fc500b4205f00219ad8e52f90dc:321',
 "remove_spares/key['spare1.5']": 'sha256[ok]:2dc5e01d83bdfb64fca9f5822fdbe1ec798916a0428044bbdd0de8dd15d73151:327',
 "remove_spares/key['blanks\\n']": 'sha256[ok]:98c615c0f73df38bf62afb6ca795be90305f889ac2a0726aa55faa1b418de3ea:333',
 "remove_spares/key['spare01']": "(('ok', ('dict', [])), ('inputs-after', ('tuple', [('dict', "
                                 '[((\'str\', "\'spare01\'"), (\'dict\', [((\'str\', '
                                 '"\'spare01\'"), (\'list\', [(\'dict\', [((\'str\', '
                                 '"\'spare01\'"), (\'int\', \'1\'))])]))]))])]), (\'dict\', [])))',
 "remove_spares/key['spare１']": "(('ok', ('dict', [])), ('inputs-after', ('tuple', [('dict', "
                                '[((\'str\', "\'spare１\'"), (\'dict\', [((\'str\', "\'spare１\'"), '
                                '(\'list\', [(\'dict\', [((\'str\', "\'spare１\'"), (\'int\', '
                                "'1'))])]))]))])]), ('dict', [])))",
 'remove_spares/nested-dict': '((\'ok\', (\'dict\', [((\'str\', "\'a\'"), (\'dict\', [((\'str\', '
                              '"\'b\'"), (\'dict\', []))]))])), (\'inputs-after\', (\'tuple\', '
                              '[(\'dict\', [((\'str\', "\'a\'"), (\'dict\', [((\'str\', "\'b\'"), '
                              '(\'dict\', [((\'str\', "\'blanks\'"), (\'str\', "\'\'"))]))]))])]), '
                              "('dict', [])))",
 'remove_spares/nested-list': '((\'ok\', (\'dict\', [((\'str\', "\'a\'"), (\'list\', [(\'dict\', '
                              '[((\'str\', "\'b\'"), (\'dict\', []))])]))])), (\'inputs-after\', '
                              '(\'tuple\', [(\'dict\', [((\'str\', "\'a\'"), (\'list\', '
                              '[(\'dict\', [((\'str\', "\'b\'"), (\'dict\', [((\'str\', '
                              '"\'blanks\'"), (\'str\', "\'\'"))]))])]))])]), (\'dict\', [])))',
 'remove_spares/list-of-lists': 'sha256[ok]:b246e4f996f0f546b74edecf34a78e403177ccbb627d3c5fbfe69c967bc7ea87:597',
 'remove_spares/tuples-are-opaque': 'sha256[ok]:23211fb38d4f7895410a6c41a2e072ae1228c5c5ded0cc5eed3a1f2eeaa463d4:585',
 'remove_spares/top-level-list': '((\'ok\', (\'list\', [(\'dict\', [((\'str\', "\'a\'"), (\'int\', '
                                 "'2'))]), ('int', '3'), ('list', [('int', '4')])])), "
                                 "('inputs-after', ('tuple', [('list', [('dict', [(('str', "
                                 '"\'spare1\'"), (\'int\', \'1\')), ((\'str\', "\'a\'"), (\'int\', '
                                 "'2'))]), ('int', '3'), ('list', [('int', '4')])])]), ('dict', "
                                 '[])))',
 'remove_spares/top-level-tuple': '((\'ok\', (\'tuple\', [(\'dict\', [((\'str\', "\'spare1\'"), '
                                  "('int', '1'))])])), ('inputs-after', ('tuple', [('tuple', "
                                  '[(\'dict\', [((\'str\', "\'spare1\'"), (\'int\', \'1\'))])])]), '
                                  "('dict', [])))",
 'remove_spares/scalar[1]': "(('ok', ('int', '1')), ('inputs-after', ('tuple', [('int', '1')]), "
                            "('dict', [])))",
 'remove_spares/scalar[None]': "(('ok', ('NoneType', 'None')), ('inputs-after', ('tuple', "
                               "[('NoneType', 'None')]), ('dict', [])))",
 "remove_spares/scalar['spare1']": '((\'ok\', (\'str\', "\'spare1\'")), (\'inputs-after\', '
                                   '(\'tuple\', [(\'str\', "\'spare1\'")]), (\'dict\', [])))',
 'remove_spares/scalar[1.5]': "(('ok', ('float', '1.5')), ('inputs-after', ('tuple', [('float', "
                              "'1.5')]), ('dict', [])))",
 "remove_spares/scalar[b'blanks']": '((\'ok\', (\'bytes\', "b\'blanks\'")), (\'inputs-after\', '
                                    '(\'tuple\', [(\'bytes\', "b\'blanks\'")]), (\'dict\', [])))',
 'remove_spares/scalar[()]': "(('ok', ('tuple', [])), ('inputs-after', ('tuple', [('tuple', [])]), "
                             "('dict', [])))",
 'remove_spares/scalar[[]]': "(('ok', ('list', [])), ('inputs-after', ('tuple', [('list', [])]), "
                             "('dict', [])))",
 'remove_spares/scalar[{}]': "(('ok', ('dict', [])), ('inputs-after', ('tuple', [('dict', [])]), "
                             "('dict', [])))",
 'remove_spares/scalar[True]': "(('ok', ('bool', 'True')), ('inputs-after', ('tuple', [('bool', "
                               "'True')]), ('dict', [])))",
 'remove_spares/ordered-dict': '((\'ok\', (\'dict\', [((\'str\', "\'z\'"), (\'int\', \'1\')), '
                               '((\'str\', "\'a\'"), (\'dict\', []))])), (\'inputs-after\', '
                               '(\'tuple\', [(\'OrderedDict\', [((\'str\', "\'z\'"), (\'int\', '
                               '\'1\')), ((\'str\', "\'spare1\'"), (\'int\', \'2\')), ((\'str\', '
                               '"\'a\'"), (\'OrderedDict\', [((\'str\', "\'blanks\'"), (\'int\', '
                               "'1'))]))])]), ('dict', [])))",
 'remove_spares/int-key': '((\'raises\', \'AttributeError\', "\'int\' object has no attribute '
                          '\'startswith\'"), (\'inputs-after\', (\'tuple\', [(\'dict\', '
                          "[(('int', '1'), ('int', '2'))])]), ('dict', [])))",
 'remove_spares/nested-int-key': '((\'raises\', \'AttributeError\', "\'NoneType\' object has no '
                                 'attribute \'startswith\'"), (\'inputs-after\', (\'tuple\', '
                                 '[(\'dict\', [((\'str\', "\'a\'"), (\'list\', [(\'dict\', '
                                 '[((\'str\', "\'b\'"), (\'dict\', [((\'NoneType\', \'None\'), '
                                 "('int', '2'))]))])]))])]), ('dict', [])))",
 'remove_spares/tuple-key': '((\'raises\', \'AttributeError\', "\'tuple\' object has no attribute '
                            '\'startswith\'"), (\'inputs-after\', (\'tuple\', [(\'dict\', '
                            '[((\'tuple\', [(\'str\', "\'spare1\'")]), (\'int\', \'2\'))])]), '
                            "('dict', [])))",
 'remove_spares/bytes-key': '((\'raises\', \'TypeError\', "a bytes-like object is required, not '
                            '\'str\'"), (\'inputs-after\', (\'tuple\', [(\'dict\', [((\'bytes\', '
                            '"b\'spare1\'"), (\'int\', \'2\'))])]), (\'dict\', [])))',
 'remove_spares/order': 'sha256[ok]:8cccc2f51fc352d8c7fa87f548597ebc99488176340eea70e2265001d8dcdf6e:651',
 'item_type/0[()]': "(('raises', 'IndexError', 'tuple index out of range'), ('inputs-after', "
                    '(\'tuple\', [(\'tuple\', [(\'str\', "\'key\'"), (\'tuple\', [])])]), '
                    "('dict', [])))",
 'item_type/list-item/0': "(('raises', 'IndexError', 'tuple index out of range'), ('inputs-after', "
                          '(\'tuple\', [(\'list\', [(\'str\', "\'key\'"), (\'tuple\', [])])]), '
                          "('dict', [])))",
 'item_type/1[((), [])]': '((\'ok\', (\'str\', "\'variable\'")), (\'inputs-after\', (\'tuple\', '
                          '[(\'tuple\', [(\'str\', "\'key\'"), (\'tuple\', [(\'tuple\', []), '
                          "('list', [])])])]), ('dict', [])))",
 'item_type/list-item/1': '((\'ok\', (\'str\', "\'variable\'")), (\'inputs-after\', (\'tuple\', '
                          '[(\'list\', [(\'str\', "\'key\'"), (\'tuple\', [(\'tuple\', []), '
                          "('list', [])])])]), ('dict', [])))",
 'item_type/2[([],)]': '((\'ok\', (\'str\', "\'variable\'")), (\'inputs-after\', (\'tuple\', '
                       '[(\'tuple\', [(\'str\', "\'key\'"), (\'tuple\', [(\'list\', [])])])]), '
                       "('dict', [])))",
 'item_type/list-item/2': '((\'ok\', (\'str\', "\'variable\'")), (\'inputs-after\', (\'tuple\', '
                          '[(\'list\', [(\'str\', "\'key\'"), (\'tuple\', [(\'list\', [])])])]), '
                          "('dict', [])))",
 'item_type/3[([], {})]': '((\'ok\', (\'str\', "\'variable\'")), (\'inputs-after\', (\'tuple\', '
                          '[(\'tuple\', [(\'str\', "\'key\'"), (\'tuple\', [(\'list\', []), '
                          "('dict', [])])])]), ('dict', [])))",
 'item_type/list-item/3': '((\'ok\', (\'str\', "\'variable\'")), (\'inputs-after\', (\'tuple\', '
                          '[(\'list\', [(\'str\', "\'key\'"), (\'tuple\', [(\'list\', []), '
                          "('dict', [])])])]), ('dict', [])))",
 'item_type/4[({}, {})]': '((\'ok\', (\'str\', "\'group\'")), (\'inputs-after\', (\'tuple\', '
                          '[(\'tuple\', [(\'str\', "\'key\'"), (\'tuple\', [(\'dict\', []), '
                          "('dict', [])])])]), ('dict', [])))",
 'item_type/list-item/4': '((\'ok\', (\'str\', "\'group\'")), (\'inputs-after\', (\'tuple\', '
                          '[(\'list\', [(\'str\', "\'key\'"), (\'tuple\', [(\'dict\', []), '
                          "('dict', [])])])]), ('dict', [])))",
 'item_type/5[({},)]': '((\'ok\', (\'str\', "\'group\'")), (\'inputs-after\', (\'tuple\', '
                       '[(\'tuple\', [(\'str\', "\'key\'"), (\'tuple\', [(\'dict\', [])])])]), '
                       "('dict', [])))",
 'item_type/list-item/5': '((\'ok\', (\'str\', "\'group\'")), (\'inputs-after\', (\'tuple\', '
                          '[(\'list\', [(\'str\', "\'key\'"), (\'tuple\', [(\'dict\', [])])])]), '
                          "('dict', [])))",
 "item_type/6[({'a': 1}, {'b': 2}, 3)]": '((\'ok\', (\'str\', "\'group\'")), (\'inputs-after\', '
                                         '(\'tuple\', [(\'tuple\', [(\'str\', "\'key\'"), '
                                         '(\'tuple\', [(\'dict\', [((\'str\', "\'a\'"), (\'int\', '
                                         '\'1\'))]), (\'dict\', [((\'str\', "\'b\'"), (\'int\', '
                                         "'2'))]), ('int', '3')])])]), ('dict', [])))",
 'item_type/list-item/6': '((\'ok\', (\'str\', "\'group\'")), (\'inputs-after\', (\'tuple\', '
                          '[(\'list\', [(\'str\', "\'key\'"), (\'tuple\', [(\'dict\', [((\'str\', '
                          '"\'a\'"), (\'int\', \'1\'))]), (\'dict\', [((\'str\', "\'b\'"), '
                          "('int', '2'))]), ('int', '3')])])]), ('dict', [])))",
 'item_type/7[(1, 2, 3)]': '((\'ok\', (\'str\', "\'variable\'")), (\'inputs-after\', (\'tuple\', '
                           '[(\'tuple\', [(\'str\', "\'key\'"), (\'tuple\', [(\'int\', \'1\'), '
                           "('int', '2'), ('int', '3')])])]), ('dict', [])))",
 'item_type/list-item/7': '((\'ok\', (\'str\', "\'variable\'")), (\'inputs-after\', (\'tuple\', '
                          '[(\'list\', [(\'str\', "\'key\'"), (\'tuple\', [(\'int\', \'1\'), '
                          "('int', '2'), ('int', '3')])])]), ('dict', [])))",
 "item_type/8[('d', [1], {})]": '((\'ok\', (\'str\', "\'variable\'")), (\'inputs-after\', '
                                '(\'tuple\', [(\'tuple\', [(\'str\', "\'key\'"), (\'tuple\', '
                                '[(\'str\', "\'d\'"), (\'list\', [(\'int\', \'1\')]), (\'dict\', '
                                "[])])])]), ('dict', [])))",
 'item_type/list-item/8': '((\'ok\', (\'str\', "\'variable\'")), (\'inputs-after\', (\'tuple\', '
                          '[(\'list\', [(\'str\', "\'key\'"), (\'tuple\', [(\'str\', "\'d\'"), '
                          "('list', [('int', '1')]), ('dict', [])])])]), ('dict', [])))",
 'item_type/9[(None,)]': '((\'ok\', (\'str\', "\'variable\'")), (\'inputs-after\', (\'tuple\', '
                         '[(\'tuple\', [(\'str\', "\'key\'"), (\'tuple\', [(\'NoneType\', '
                         "'None')])])]), ('dict', [])))",
 'item_type/list-item/9': '((\'ok\', (\'str\', "\'variable\'")), (\'inputs-after\', (\'tuple\', '
                          '[(\'list\', [(\'str\', "\'key\'"), (\'tuple\', [(\'NoneType\', '
                          "'None')])])]), ('dict', [])))",
 'item_type/10[((),)]': '((\'ok\', (\'str\', "\'variable\'")), (\'inputs-after\', (\'tuple\', '
                        '[(\'tuple\', [(\'str\', "\'key\'"), (\'tuple\', [(\'tuple\', [])])])]), '
                        "('dict', [])))",
 'item_type/list-item/10': '((\'ok\', (\'str\', "\'variable\'")), (\'inputs-after\', (\'tuple\', '
                           '[(\'list\', [(\'str\', "\'key\'"), (\'tuple\', [(\'tuple\', [])])])]), '
                           "('dict', [])))",
 'item_type/11[(({},),)]': '((\'ok\', (\'str\', "\'variable\'")), (\'inputs-after\', (\'tuple\', '
                           '[(\'tuple\', [(\'str\', "\'key\'"), (\'tuple\', [(\'tuple\', '
                           "[('dict', [])])])])]), ('dict', [])))",
 'item_type/list-item/11': '((\'ok\', (\'str\', "\'variable\'")), (\'inputs-after\', (\'tuple\', '
                           '[(\'list\', [(\'str\', "\'key\'"), (\'tuple\', [(\'tuple\', '
                           "[('dict', [])])])])]), ('dict', [])))",
 'item_type/12[[]]': '((\'ok\', (\'str\', "\'variable\'")), (\'inputs-after\', (\'tuple\', '
                     '[(\'tuple\', [(\'str\', "\'key\'"), (\'list\', [])])]), (\'dict\', [])))',
 'item_type/list-item/12': '((\'ok\', (\'str\', "\'variable\'")), (\'inputs-after\', (\'tuple\', '
                           '[(\'list\', [(\'str\', "\'key\'"), (\'list\', [])])]), (\'dict\', '
                           '[])))',
 "item_type/13[['abc']]": '((\'ok\', (\'str\', "\'variable\'")), (\'inputs-after\', (\'tuple\', '
                          '[(\'tuple\', [(\'str\', "\'key\'"), (\'list\', [(\'str\', '
                          '"\'abc\'")])])]), (\'dict\', [])))',
 'item_type/list-item/13': '((\'ok\', (\'str\', "\'variable\'")), (\'inputs-after\', (\'tuple\', '
                           '[(\'list\', [(\'str\', "\'key\'"), (\'list\', [(\'str\', '
                           '"\'abc\'")])])]), (\'dict\', [])))',
 'item_type/14[[{}]]': '((\'ok\', (\'str\', "\'variable\'")), (\'inputs-after\', (\'tuple\', '
                       '[(\'tuple\', [(\'str\', "\'key\'"), (\'list\', [(\'dict\', [])])])]), '
                       "('dict', [])))",
 'item_type/list-item/14': '((\'ok\', (\'str\', "\'variable\'")), (\'inputs-after\', (\'tuple\', '
                           '[(\'list\', [(\'str\', "\'key\'"), (\'list\', [(\'dict\', [])])])]), '
                           "('dict', [])))",
 'item_type/15[[()]]': '((\'ok\', (\'str\', "\'variable\'")), (\'inputs-after\', (\'tuple\', '
                       '[(\'tuple\', [(\'str\', "\'key\'"), (\'list\', [(\'tuple\', [])])])]), '
                       "('dict', [])))",
 'item_type/list-item/15': '((\'ok\', (\'str\', "\'variable\'")), (\'inputs-after\', (\'tuple\', '
                           '[(\'list\', [(\'str\', "\'key\'"), (\'list\', [(\'tuple\', [])])])]), '
                           "('dict', [])))",
 'item_type/16[{}]': '((\'ok\', (\'str\', "\'group\'")), (\'inputs-after\', (\'tuple\', '
                     '[(\'tuple\', [(\'str\', "\'key\'"), (\'dict\', [])])]), (\'dict\', [])))',
 'item_type/list-item/16': '((\'ok\', (\'str\', "\'group\'")), (\'inputs-after\', (\'tuple\', '
                           '[(\'list\', [(\'str\', "\'key\'"), (\'dict\', [])])]), (\'dict\', '
                           '[])))',
 "item_type/17[{'a': 1}]": '((\'ok\', (\'str\', "\'group\'")), (\'inputs-after\', (\'tuple\', '
                           '[(\'tuple\', [(\'str\', "\'key\'"), (\'dict\', [((\'str\', "\'a\'"), '
                           "('int', '1'))])])]), ('dict', [])))",
 'item_type/list-item/17': '((\'ok\', (\'str\', "\'group\'")), (\'inputs-after\', (\'tuple\', '
                           '[(\'list\', [(\'str\', "\'key\'"), (\'dict\', [((\'str\', "\'a\'"), '
                           "('int', '1'))])])]), ('dict', [])))",
 "item_type/18[OrderedDict({'a': 1})]": '((\'ok\', (\'str\', "\'group\'")), (\'inputs-after\', '
                                        '(\'tuple\', [(\'tuple\', [(\'str\', "\'key\'"), '
                                        '(\'OrderedDict\', [((\'str\', "\'a\'"), (\'int\', '
                                        "'1'))])])]), ('dict', [])))",
 'item_type/list-item/18': '((\'ok\', (\'str\', "\'group\'")), (\'inputs-after\', (\'tuple\', '
                           '[(\'list\', [(\'str\', "\'key\'"), (\'OrderedDict\', [((\'str\', '
                           '"\'a\'"), (\'int\', \'1\'))])])]), (\'dict\', [])))',
 "item_type/19[defaultdict(<class 'list'>, {})]": '((\'ok\', (\'str\', "\'group\'")), '
                                                  "('inputs-after', ('tuple', [('tuple', [('str', "
                                                  '"\'key\'"), (\'defaultdict\', [])])]), '
                                                  "('dict', [])))",
 'item_type/list-item/19': '((\'ok\', (\'str\', "\'group\'")), (\'inputs-after\', (\'tuple\', '
                           '[(\'list\', [(\'str\', "\'key\'"), (\'defaultdict\', [])])]), '
                           "('dict', [])))",
 "item_type/20['abc']": '((\'ok\', (\'str\', "\'attribute\'")), (\'inputs-after\', (\'tuple\', '
                        '[(\'tuple\', [(\'str\', "\'key\'"), (\'str\', "\'abc\'")])]), (\'dict\', '
                        '[])))',
 'item_type/list-item/20': '((\'ok\', (\'str\', "\'attribute\'")), (\'inputs-after\', (\'tuple\', '
                           '[(\'list\', [(\'str\', "\'key\'"), (\'str\', "\'abc\'")])]), '
                           "('dict', [])))",
 "item_type/21['']": '((\'ok\', (\'str\', "\'attribute\'")), (\'inputs-after\', (\'tuple\', '
                     '[(\'tuple\', [(\'str\', "\'key\'"), (\'str\', "\'\'")])]), (\'dict\', [])))',
 'item_type/list-item/21': '((\'ok\', (\'str\', "\'attribute\'")), (\'inputs-after\', (\'tuple\', '
                           '[(\'list\', [(\'str\', "\'key\'"), (\'str\', "\'\'")])]), (\'dict\', '
                           '[])))',
 "item_type/22[b'x']": '((\'ok\', (\'str\', "\'attribute\'")), (\'inputs-after\', (\'tuple\', '
                       '[(\'tuple\', [(\'str\', "\'key\'"), (\'bytes\', "b\'x\'")])]), (\'dict\', '
                       '[])))',
 'item_type/list-item/22': '((\'ok\', (\'str\', "\'attribute\'")), (\'inputs-after\', (\'tuple\', '
                           '[(\'list\', [(\'str\', "\'key\'"), (\'bytes\', "b\'x\'")])]), '
                           "('dict', [])))",
 'item_type/23[1]': '((\'ok\', (\'str\', "\'attribute\'")), (\'inputs-after\', (\'tuple\', '
                    '[(\'tuple\', [(\'str\', "\'key\'"), (\'int\', \'1\')])]), (\'dict\', [])))',
 'item_type/list-item/23': '((\'ok\', (\'str\', "\'attribute\'")), (\'inputs-after\', (\'tuple\', '
                           '[(\'list\', [(\'str\', "\'key\'"), (\'int\', \'1\')])]), (\'dict\', '
                           '[])))',
 'item_type/24[1.5]': '((\'ok\', (\'str\', "\'attribute\'")), (\'inputs-after\', (\'tuple\', '
                      '[(\'tuple\', [(\'str\', "\'key\'"), (\'float\', \'1.5\')])]), (\'dict\', '
                      '[])))',
 'item_type/list-item/24': '((\'ok\', (\'str\', "\'attribute\'")), (\'inputs-after\', (\'tuple\', '
                           '[(\'list\', [(\'str\', "\'key\'"), (\'float\', \'1.5\')])]), '
                           "('dict', [])))",
 'item_type/25[None]': '((\'ok\', (\'str\', "\'attribute\'")), (\'inputs-after\', (\'tuple\', '
                       '[(\'tuple\', [(\'str\', "\'key\'"), (\'NoneType\', \'None\')])]), '
                       "('dict', [])))",
 'item_type/list-item/25': '((\'ok\', (\'str\', "\'attribute\'")), (\'inputs-after\', (\'tuple\', '
                           '[(\'list\', [(\'str\', "\'key\'"), (\'NoneType\', \'None\')])]), '
                           "('dict', [])))",
 'item_type/26[True]': '((\'ok\', (\'str\', "\'attribute\'")), (\'inputs-after\', (\'tuple\', '
                       '[(\'tuple\', [(\'str\', "\'key\'"), (\'bool\', \'True\')])]), (\'dict\', '
                       '[])))',
 'item_type/list-item/26': '((\'ok\', (\'str\', "\'attribute\'")), (\'inputs-after\', (\'tuple\', '
                           '[(\'list\', [(\'str\', "\'key\'"), (\'bool\', \'True\')])]), '
                           "('dict', [])))",
 'item_type/27[Pair(first={}, second={})]': '((\'ok\', (\'str\', "\'group\'")), (\'inputs-after\', '
                                            '(\'tuple\', [(\'tuple\', [(\'str\', "\'key\'"), '
                                            "('Pair', [('dict', []), ('dict', [])])])]), ('dict', "
                                            '[])))',
 'item_type/list-item/27': '((\'ok\', (\'str\', "\'group\'")), (\'inputs-after\', (\'tuple\', '
                           '[(\'list\', [(\'str\', "\'key\'"), (\'Pair\', [(\'dict\', []), '
                           "('dict', [])])])]), ('dict', [])))",
 'item_type/28[Pair(first=1, second={})]': '((\'ok\', (\'str\', "\'variable\'")), '
                                           "('inputs-after', ('tuple', [('tuple', [('str', "
                                           '"\'key\'"), (\'Pair\', [(\'int\', \'1\'), (\'dict\', '
                                           "[])])])]), ('dict', [])))",
 'item_type/list-item/28': '((\'ok\', (\'str\', "\'variable\'")), (\'inputs-after\', (\'tuple\', '
                           '[(\'list\', [(\'str\', "\'key\'"), (\'Pair\', [(\'int\', \'1\'), '
                           "('dict', [])])])]), ('dict', [])))",
 'item_type/29[Pair(first=[], second={})]': '((\'ok\', (\'str\', "\'variable\'")), '
                                            "('inputs-after', ('tuple', [('tuple', [('str', "
                                            '"\'key\'"), (\'Pair\', [(\'list\', []), (\'dict\', '
                                            "[])])])]), ('dict', [])))",
 'item_type/list-item/29': '((\'ok\', (\'str\', "\'variable\'")), (\'inputs-after\', (\'tuple\', '
                           '[(\'list\', [(\'str\', "\'key\'"), (\'Pair\', [(\'list\', []), '
                           "('dict', [])])])]), ('dict', [])))",
 'item_type/30[range(0, 3)]': '((\'ok\', (\'str\', "\'attribute\'")), (\'inputs-after\', '
                              '(\'tuple\', [(\'tuple\', [(\'str\', "\'key\'"), (\'other\', '
                              "'builtins', 'range', 'range(0, 3)')])]), ('dict', [])))",
 'item_type/list-item/30': '((\'ok\', (\'str\', "\'attribute\'")), (\'inputs-after\', (\'tuple\', '
                           '[(\'list\', [(\'str\', "\'key\'"), (\'other\', \'builtins\', '
                           "'range', 'range(0, 3)')])]), ('dict', [])))",
 'item_type/31[{1, 2}]': '((\'ok\', (\'str\', "\'attribute\'")), (\'inputs-after\', (\'tuple\', '
                         '[(\'tuple\', [(\'str\', "\'key\'"), (\'other\', \'builtins\', \'set\', '
                         "'{1, 2}')])]), ('dict', [])))",
 'item_type/list-item/31': '((\'ok\', (\'str\', "\'attribute\'")), (\'inputs-after\', (\'tuple\', '
                           '[(\'list\', [(\'str\', "\'key\'"), (\'other\', \'builtins\', \'set\', '
                           "'{1, 2}')])]), ('dict', [])))",
 'item_type/32[frozenset()]': '((\'ok\', (\'str\', "\'attribute\'")), (\'inputs-after\', '
                              '(\'tuple\', [(\'tuple\', [(\'str\', "\'key\'"), (\'other\', '
                              "'builtins', 'frozenset', 'frozenset()')])]), ('dict', [])))",
 'item_type/list-item/32': '((\'ok\', (\'str\', "\'attribute\'")), (\'inputs-after\', (\'tuple\', '
                           '[(\'list\', [(\'str\', "\'key\'"), (\'other\', \'builtins\', '
                           "'frozenset', 'frozenset()')])]), ('dict', [])))",
 'item_type/33[(OrderedDict(), {})]': '((\'ok\', (\'str\', "\'group\'")), (\'inputs-after\', '
                                      '(\'tuple\', [(\'tuple\', [(\'str\', "\'key\'"), (\'tuple\', '
                                      "[('OrderedDict', []), ('dict', [])])])]), ('dict', [])))",
 'item_type/list-item/33': '((\'ok\', (\'str\', "\'group\'")), (\'inputs-after\', (\'tuple\', '
                           '[(\'list\', [(\'str\', "\'key\'"), (\'tuple\', [(\'OrderedDict\', []), '
                           "('dict', [])])])]), ('dict', [])))",
 'item_type/three-elements': '((\'ok\', (\'str\', "\'group\'")), (\'inputs-after\', (\'tuple\', '
                             '[(\'tuple\', [(\'str\', "\'key\'"), (\'dict\', []), (\'str\', '
                             '"\'ignored\'")])]), (\'dict\', [])))',
 'item_type/string-item': '((\'ok\', (\'str\', "\'attribute\'")), (\'inputs-after\', (\'tuple\', '
                          '[(\'str\', "\'ab\'")]), (\'dict\', [])))',
 'item_type/short-item': "(('raises', 'StopIteration', ''), ('inputs-after', ('tuple', [('tuple', "
                         '[(\'str\', "\'key\'")])]), (\'dict\', [])))',
 'item_type/empty-item': "(('raises', 'StopIteration', ''), ('inputs-after', ('tuple', [('tuple', "
                         "[])]), ('dict', [])))",
 'item_type/not-iterable': '((\'raises\', \'TypeError\', "\'int\' object is not iterable"), '
                           "('inputs-after', ('tuple', [('int', '1')]), ('dict', [])))",
 'item_type/dict-item': '((\'ok\', (\'str\', "\'attribute\'")), (\'inputs-after\', (\'tuple\', '
                        '[(\'dict\', [((\'str\', "\'a\'"), (\'int\', \'1\')), ((\'str\', "\'b\'"), '
                        "('tuple', [('dict', []), ('dict', [])]))])]), ('dict', [])))",
 'transform_nested/0': 'sha256[ok]:c22c5bc27c91f7f40964a548e37ad798b5c0a9e0a88dc9446fa5c70583e61691:569',
 'transform_nested/1': 'sha256[ok]:62379fb861cc1794eaf75ce4510283afe01e4917e65cb0af90e2b9ab65ba3546:857',
 'transform_nested/2': '((\'ok\', (\'dict\', [((\'str\', "\'a\'"), (\'list\', [(\'int\', \'1\'), '
                       "('int', '2'), ('int', '3')]))])), ('inputs-after', ('tuple', [('list', "
                       '[(\'dict\', [((\'str\', "\'a\'"), (\'int\', \'1\'))]), (\'dict\', '
                       '[((\'str\', "\'a\'"), (\'int\', \'2\'))]), (\'dict\', [((\'str\', '
                       '"\'a\'"), (\'int\', \'3\'))])])]), (\'dict\', [])))',
 'transform_nested/3': '((\'ok\', (\'dict\', [((\'str\', "\'a\'"), (\'list\', [(\'int\', '
                       "'1')]))])), ('inputs-after', ('tuple', [('list', [('dict', [(('str', "
                       '"\'a\'"), (\'int\', \'1\'))])])]), (\'dict\', [])))',
 'transform_nested/4': "(('ok', ('dict', [])), ('inputs-after', ('tuple', [('list', [('dict', "
                       "[])])]), ('dict', [])))",
 'transform_nested/5': "(('ok', ('dict', [])), ('inputs-after', ('tuple', [('list', [('dict', []), "
                       "('dict', [])])]), ('dict', [])))",
 'transform_nested/6': 'sha256[ok]:485167d1575a8e9e16aef50fcbd522db5800e86d082a9ac90df98e0b1601211c:375',
 'transform_nested/7': '((\'ok\', (\'dict\', [((\'str\', "\'a\'"), (\'list\', [(\'list\', '
                       "[('int', '1')]), ('list', [('int', '2')])]))])), ('inputs-after', "
                       '(\'tuple\', [(\'list\', [(\'dict\', [((\'str\', "\'a\'"), (\'list\', '
                       '[(\'int\', \'1\')]))]), (\'dict\', [((\'str\', "\'a\'"), (\'list\', '
                       "[('int', '2')]))])])]), ('dict', [])))",
 'transform_nested/8': 'sha256[ok]:40756837c979fbaab4ed7bc02fb48d69a4e0a1f2f4d698d0ec3b6efb93a36e8a:475',
 'transform_nested/9': 'sha256[ok]:fb9c8bb46c1f5677e90ba4c2c4476b28285ea4c6e83640c6296a388c7ccddcce:433',
 'transform_nested/10': '((\'raises\', \'AttributeError\', "\'int\' object has no attribute '
                        '\'items\'"), (\'inputs-after\', (\'tuple\', [(\'list\', [(\'dict\', '
                        '[((\'str\', "\'a\'"), (\'dict\', [((\'str\', "\'b\'"), (\'int\', '
                        '\'1\'))]))]), (\'dict\', [((\'str\', "\'a\'"), (\'int\', \'2\'))])])]), '
                        "('dict', [])))",
 'transform_nested/11': '((\'raises\', \'AttributeError\', "\'int\' object has no attribute '
                        '\'items\'"), (\'inputs-after\', (\'tuple\', [(\'list\', [(\'dict\', '
                        '[((\'str\', "\'a\'"), (\'int\', \'1\'))]), (\'int\', \'2\')])]), '
                        "('dict', [])))",
 'transform_nested/12': '((\'raises\', \'AttributeError\', "\'list\' object has no attribute '
                        '\'items\'"), (\'inputs-after\', (\'tuple\', [(\'list\', [(\'dict\', '
                        '[((\'str\', "\'a\'"), (\'int\', \'1\'))]), (\'list\', [(\'int\', '
                        "'1')])])]), ('dict', [])))",
 'transform_nested/13': '((\'raises\', \'AttributeError\', "\'NoneType\' object has no attribute '
                        '\'items\'"), (\'inputs-after\', (\'tuple\', [(\'list\', [(\'dict\', '
                        '[((\'str\', "\'a\'"), (\'int\', \'1\'))]), (\'NoneType\', \'None\')])]), '
                        "('dict', [])))",
 'transform_nested/14': '((\'raises\', \'AttributeError\', "\'list\' object has no attribute '
                        '\'keys\'"), (\'inputs-after\', (\'tuple\', [(\'list\', [(\'int\', \'1\'), '
                        '(\'dict\', [((\'str\', "\'a\'"), (\'int\', \'1\'))])])]), (\'dict\', '
                        '[])))',
 'transform_nested/15': '((\'raises\', \'AttributeError\', "\'list\' object has no attribute '
                        '\'keys\'"), (\'inputs-after\', (\'tuple\', [(\'list\', [])]), (\'dict\', '
                        '[])))',
 'transform_nested/16': '((\'raises\', \'AttributeError\', "\'list\' object has no attribute '
                        '\'keys\'"), (\'inputs-after\', (\'tuple\', [(\'list\', [(\'int\', \'1\'), '
                        "('int', '2')])]), ('dict', [])))",
 'transform_nested/17': '((\'raises\', \'AttributeError\', "\'list\' object has no attribute '
                        '\'keys\'"), (\'inputs-after\', (\'tuple\', [(\'list\', [(\'list\', '
                        '[(\'dict\', [((\'str\', "\'a\'"), (\'int\', \'1\'))])])])]), (\'dict\', '
                        '[])))',
 'transform_nested/18': 'sha256[ok]:18cb2a798c6926c8e1a19d6866c3feb33ee0a0d08624e8860283434574997296:735',
 'transform_nested/19': 'sha256[ok]:da69442bc57edcef98a3e5e4df1ebea8ef4352f609b97a164b89023c38608663:451',
 'transform_nested/20': "(('ok', ('dict', [])), ('inputs-after', ('tuple', [('dict', [])]), "
                        "('dict', [])))",
 'transform_nested/21': '((\'raises\', \'AttributeError\', "\'int\' object has no attribute '
                        '\'items\'"), (\'inputs-after\', (\'tuple\', [(\'dict\', [((\'str\', '
                        '"\'a\'"), (\'list\', [(\'dict\', [((\'str\', "\'b\'"), (\'int\', '
                        "'1'))]), ('int', '2')]))])]), ('dict', [])))",
 'transform_nested/22': 'sha256[ok]:576d22a959677b4c22f0c447ebc8d58059288e47684a8077238baf9135bcdebe:380',
 'transform_nested/23': '((\'raises\', \'AttributeError\', "\'int\' object has no attribute '
                        '\'keys\'"), (\'inputs-after\', (\'tuple\', [(\'int\', \'1\')]), '
                        "('dict', [])))",
 'transform_nested/24': '((\'raises\', \'AttributeError\', "\'NoneType\' object has no attribute '
                        '\'keys\'"), (\'inputs-after\', (\'tuple\', [(\'NoneType\', \'None\')]), '
                        "('dict', [])))",
 'transform_nested/25': '((\'raises\', \'AttributeError\', "\'str\' object has no attribute '
                        '\'keys\'"), (\'inputs-after\', (\'tuple\', [(\'str\', "\'abc\'")]), '
                        "('dict', [])))",
 'transform_nested/26': '((\'raises\', \'AttributeError\', "\'tuple\' object has no attribute '
                        '\'keys\'"), (\'inputs-after\', (\'tuple\', [(\'tuple\', [(\'dict\', '
                        '[((\'str\', "\'a\'"), (\'int\', \'1\'))])])]), (\'dict\', [])))',
 'transform_nested/27': '((\'raises\', \'AttributeError\', "\'tuple\' object has no attribute '
                        '\'keys\'"), (\'inputs-after\', (\'tuple\', [(\'tuple\', [(\'list\', '
                        '[(\'dict\', [((\'str\', "\'a\'"), (\'int\', \'1\'))])]), (\'dict\', '
                        "[])])]), ('dict', [])))",
 'transform_nested/28': '((\'ok\', (\'dict\', [((\'str\', "\'a\'"), (\'list\', [(\'int\', \'1\'), '
                        "('int', '2')]))])), ('inputs-after', ('tuple', [('list', [('OrderedDict', "
                        '[((\'str\', "\'a\'"), (\'int\', \'1\'))]), (\'OrderedDict\', [((\'str\', '
                        '"\'a\'"), (\'int\', \'2\'))])])]), (\'dict\', [])))',
 'separate_attrs/0': 'sha256[ok]:f8c18df11dfc235600240a11de5963b0341a091f362eeb7f61de8379dbb3c9d9:413',
 'separate_attrs/1': 'sha256[ok]:6947baabbbae53e86e9dd5336e56038763e8bb38ad3134f9aed2d659e9e4b7ea:304',
 'separate_attrs/2': "(('ok', ('tuple', [('list', [('int', '6'), ('int', '2'), ('int', '3')]), "
                     "('dict', [])])), ('inputs-after', ('tuple', [('list', [('int', '6'), ('int', "
                     "'2'), ('int', '3')])]), ('dict', [])))",
 'separate_attrs/3': "(('ok', ('tuple', [('list', []), ('dict', [])])), ('inputs-after', ('tuple', "
                     "[('list', [])]), ('dict', [])))",
 'separate_attrs/4': "(('raises', 'ValueError', 'not enough values to unpack (expected 2, got "
                     "0)'), ('inputs-after', ('tuple', [('list', [('tuple', [])])]), ('dict', "
                     '[])))',
 'separate_attrs/5': "(('raises', 'ValueError', 'not enough values to unpack (expected 2, got "
                     "1)'), ('inputs-after', ('tuple', [('list', [('tuple', [('int', '1')])])]), "
                     "('dict', [])))",
 'separate_attrs/6': '((\'raises\', \'TypeError\', "\'int\' object is not iterable"), '
                     "('inputs-after', ('tuple', [('list', [('tuple', [('int', '1'), ('dict', "
                     "[])]), ('int', '2')])]), ('dict', [])))",
 'separate_attrs/7': "(('raises', 'ValueError', 'too many values to unpack (expected 2)'), "
                     "('inputs-after', ('tuple', [('list', [('tuple', [('int', '1'), ('dict', []), "
                     "('int', '3')])])]), ('dict', [])))",
 'separate_attrs/8': "(('ok', ('tuple', [('tuple', [('int', '1'), ('dict', [])]), ('dict', [])])), "
                     "('inputs-after', ('tuple', [('tuple', [('int', '1'), ('dict', [])])]), "
                     "('dict', [])))",
 'separate_attrs/9': "(('ok', ('tuple', [('NoneType', 'None'), ('dict', [])])), ('inputs-after', "
                     "('tuple', [('NoneType', 'None')]), ('dict', [])))",
 'as_variable/0': "(('ok', ('Variable', ('tuple', []), ('int', '1'), ('dict', [(('str', "
                  '"\'a\'"), (\'int\', \'1\'))]))), (\'inputs-after\', (\'tuple\', [(\'tuple\', '
                  '[(\'int\', \'1\'), (\'dict\', [((\'str\', "\'a\'"), (\'int\', \'1\'))])])]), '
                  "('dict', [])))",
 'as_variable/1': '((\'ok\', (\'Variable\', (\'list\', [(\'str\', "\'d1\'")]), (\'list\', '
                  '[(\'int\', \'1\'), (\'int\', \'2\')]), (\'dict\', [((\'str\', "\'b\'"), '
                  "('int', '3'))]))), ('inputs-after', ('tuple', [('tuple', [('str', "
                  '"\'d1\'"), (\'list\', [(\'int\', \'1\'), (\'int\', \'2\')]), (\'dict\', '
                  '[((\'str\', "\'b\'"), (\'int\', \'3\'))])])]), (\'dict\', [])))',
 'as_variable/2': '((\'ok\', (\'Variable\', (\'list\', [(\'str\', "\'x\'"), (\'str\', "\'y\'")]), '
                  "('list', [('list', [('int', '1')])]), ('dict', []))), ('inputs-after', "
                  '(\'tuple\', [(\'tuple\', [(\'list\', [(\'str\', "\'x\'"), (\'str\', "\'y\'")]), '
                  "('list', [('list', [('int', '1')])]), ('dict', [])])]), ('dict', [])))",
 'as_variable/3': "(('raises', 'ValueError', 'not enough values to unpack (expected 3, got 1)'), "
                  "('inputs-after', ('tuple', [('tuple', [('int', '1')])]), ('dict', [])))",
 'as_variable/4': "(('raises', 'ValueError', 'too many values to unpack (expected 3)'), "
                  "('inputs-after', ('tuple', [('tuple', [('int', '1'), ('int', '2'), ('int', "
                  "'3'), ('int', '4')])]), ('dict', [])))",
 'as_variable/5': "(('ok', ('Variable', ('tuple', []), ('int', '1'), ('dict', []))), "
                  "('inputs-after', ('tuple', [('list', [('int', '1'), ('dict', [])])]), ('dict', "
                  '[])))',
 'as_variable/6': '((\'ok\', (\'Variable\', (\'tuple\', []), (\'str\', "\'a\'"), (\'str\', '
                  '"\'b\'"))), (\'inputs-after\', (\'tuple\', [(\'dict\', [((\'str\', "\'a\'"), '
                  '(\'int\', \'1\')), ((\'str\', "\'b\'"), (\'int\', \'2\'))])]), (\'dict\', [])))',
 'as_variable/7': '((\'ok\', (\'Variable\', (\'tuple\', []), (\'str\', "\'a\'"), (\'str\', '
                  '"\'b\'"))), (\'inputs-after\', (\'tuple\', [(\'str\', "\'ab\'")]), (\'dict\', '
                  '[])))',
 'as_variable/8': '((\'raises\', \'TypeError\', "object of type \'int\' has no len()"), '
                  "('inputs-after', ('tuple', [('int', '5')]), ('dict', [])))",
 'as_group/0': '((\'ok\', (\'Group\', \'/\', None, (\'dict\', [((\'str\', "\'a\'"), (\'int\', '
               "'1'))]), [])), ('inputs-after', ('tuple', [('tuple', [('dict', []), ('dict', "
               '[((\'str\', "\'a\'"), (\'int\', \'1\'))])])]), (\'dict\', [])))',
 'as_group/1': '((\'ok\', (\'Group\', \'/\', None, (\'dict\', []), [((\'str\', "\'a\'"), '
               "('Variable', ('tuple', []), ('int', '1'), ('dict', [])))])), ('inputs-after', "
               '(\'tuple\', [(\'dict\', [((\'str\', "\'a\'"), (\'tuple\', [(\'int\', \'1\'), '
               "('dict', [])]))])]), ('dict', [])))",
 'as_group/2': '((\'ok\', (\'Group\', \'/\', None, (\'dict\', []), [((\'str\', "\'a\'"), '
               '(\'Group\', \'/a\', None, (\'dict\', [((\'str\', "\'b\'"), (\'int\', \'2\'))]), '
               '[]))])), (\'inputs-after\', (\'tuple\', [(\'dict\', [((\'str\', "\'a\'"), '
               '(\'tuple\', [(\'dict\', []), (\'dict\', [((\'str\', "\'b\'"), (\'int\', '
               "'2'))])]))])]), ('dict', [])))",
 'as_group/3': 'sha256[ok]:74bbbb4abde22044fbded2f554e55056515e58e7391f64ae11f55e8549db359a:492',
 'as_group/4': "(('ok', ('Group', '/', None, ('dict', []), [])), ('inputs-after', ('tuple', "
               "[('dict', [])]), ('dict', [])))",
 'as_group/5': "(('ok', ('Group', '/', None, ('dict', []), [])), ('inputs-after', ('tuple', "
               "[('tuple', [('dict', []), ('dict', [])])]), ('dict', [])))",
 'as_group/6': 'sha256[ok]:cad2e13332f99b1a389e23b4869db4e81e9d97df641b0f6f6ee21cff424fc522:692',
 'as_group/7': 'sha256[ok]:cc45ddde127c48d7b96baa40e6644387b2e781f8d3b0996b92157cb7f01be63e:849',
 'as_group/8': 'sha256[ok]:5e5e8254313428d5f3e16367334fa391082d5b9cbac8934c36a7db5f9f6544dd:352',
 'as_group/9': 'sha256[ok]:71bffcc93253d73e37f4c2828d7b28b66281bbf77d69f2e10a35eefafd4c200d:468',
 'as_group/10': 'sha256[ok]:356ab3f51d04c1d261fe0a745e1fdb9a1452b8a195a70d71be221d7e8332062b:773',
 'as_group/11': '((\'ok\', (\'Group\', \'/\', None, (\'dict\', []), [((\'str\', "\'lists\'"), '
                "('Variable', ('tuple', []), ('int', '1'), ('int', '2')))])), ('inputs-after', "
                '(\'tuple\', [(\'dict\', [((\'str\', "\'lists\'"), (\'list\', [(\'int\', \'1\'), '
                "('int', '2')]))])]), ('dict', [])))",
 'as_group/12': 'sha256[ok]:c880738a164206de761b0d422c4fe8d469d34a8e7bf300c4f8b1b73bcec10d13:360',
 'as_group/13': "(('raises', 'ValueError', 'not enough values to unpack (expected 3, got 0)'), "
                '(\'inputs-after\', (\'tuple\', [(\'dict\', [((\'str\', "\'empty-list\'"), '
                "('list', []))])]), ('dict', [])))",
 'as_group/14': "(('raises', 'ValueError', 'too many values to unpack (expected 3)'), "
                '(\'inputs-after\', (\'tuple\', [(\'dict\', [((\'str\', "\'long-list\'"), '
                "('list', [('int', '1'), ('int', '2'), ('int', '3'), ('int', '4')]))])]), ('dict', "
                '[])))',
 'as_group/15': 'sha256[ok]:92a81d9c71bf4155960edaf9da3f98040f719018570acc65d6acc16f5efbe389:636',
 'as_group/16': "(('raises', 'IndexError', 'tuple index out of range'), ('inputs-after', ('tuple', "
                '[(\'dict\', [((\'str\', "\'bad\'"), (\'tuple\', []))])]), (\'dict\', [])))',
 'as_group/17': "(('raises', 'ValueError', 'not enough values to unpack (expected 3, got 1)'), "
                '(\'inputs-after\', (\'tuple\', [(\'dict\', [((\'str\', "\'bad\'"), (\'tuple\', '
                "[('int', '1')]))])]), ('dict', [])))",
 'as_group/18': "(('raises', 'ValueError', 'too many values to unpack (expected 3)'), "
                '(\'inputs-after\', (\'tuple\', [(\'dict\', [((\'str\', "\'bad\'"), (\'tuple\', '
                "[('int', '1'), ('int', '2'), ('int', '3'), ('int', '4')]))])]), ('dict', [])))",
 'as_group/19': "(('raises', 'ValueError', 'not enough values to unpack (expected 2, got 1)'), "
                '(\'inputs-after\', (\'tuple\', [(\'dict\', [((\'str\', "\'bad\'"), (\'tuple\', '
                "[('dict', [])]))])]), ('dict', [])))",
 'as_group/20': "(('raises', 'ValueError', 'too many values to unpack (expected 2)'), "
                '(\'inputs-after\', (\'tuple\', [(\'dict\', [((\'str\', "\'bad\'"), (\'tuple\', '
                "[('dict', []), ('dict', []), ('dict', [])]))])]), ('dict', [])))",
 'as_group/21': "(('raises', 'IndexError', 'tuple index out of range'), ('inputs-after', ('tuple', "
                '[(\'dict\', [((\'str\', "\'sub\'"), (\'dict\', [((\'str\', "\'bad\'"), '
                "('tuple', []))]))])]), ('dict', [])))",
 'as_group/22': "(('raises', 'ValueError', 'not enough values to unpack (expected 2, got 1)'), "
                "('inputs-after', ('tuple', [('tuple', [('dict', [])])]), ('dict', [])))",
 'as_group/23': "(('raises', 'ValueError', 'too many values to unpack (expected 2)'), "
                "('inputs-after', ('tuple', [('tuple', [('dict', []), ('dict', []), ('dict', "
                "[])])]), ('dict', [])))",
 'as_group/24': "(('raises', 'ValueError', 'not enough values to unpack (expected 2, got 0)'), "
                "('inputs-after', ('tuple', [('tuple', [])]), ('dict', [])))",
 'as_group/25': '((\'raises\', \'TypeError\', "unsupported operand type(s) for |: \'dict\' and '
                '\'NoneType\'"), (\'inputs-after\', (\'tuple\', [(\'tuple\', [(\'dict\', '
                '[((\'str\', "\'a\'"), (\'int\', \'1\'))]), (\'NoneType\', \'None\')])]), '
                "('dict', [])))",
 'as_group/26': '((\'raises\', \'TypeError\', "unsupported operand type(s) for |: \'dict\' and '
                '\'list\'"), (\'inputs-after\', (\'tuple\', [(\'tuple\', [(\'dict\', [((\'str\', '
                '"\'a\'"), (\'int\', \'1\'))]), (\'list\', [(\'tuple\', [(\'str\', "\'b\'"), '
                "('int', '2')])])])]), ('dict', [])))",
 'as_group/27': '((\'raises\', \'AttributeError\', "\'list\' object has no attribute \'items\'"), '
                '(\'inputs-after\', (\'tuple\', [(\'list\', [(\'tuple\', [(\'str\', "\'a\'"), '
                "('int', '1')])])]), ('dict', [])))",
 'as_group/28': '((\'raises\', \'AttributeError\', "\'NoneType\' object has no attribute '
                '\'items\'"), (\'inputs-after\', (\'tuple\', [(\'NoneType\', \'None\')]), '
                "('dict', [])))",
 'as_group/29': '((\'raises\', \'AttributeError\', "\'int\' object has no attribute \'items\'"), '
                "('inputs-after', ('tuple', [('int', '1')]), ('dict', [])))",
 'as_group/30': '((\'raises\', \'AttributeError\', "\'str\' object has no attribute \'items\'"), '
                '(\'inputs-after\', (\'tuple\', [(\'str\', "\'abc\'")]), (\'dict\', [])))',
 'as_group/31': '((\'raises\', \'AttributeError\', "\'NoneType\' object has no attribute '
                '\'items\'"), (\'inputs-after\', (\'tuple\', [(\'tuple\', [(\'NoneType\', '
                "'None'), ('dict', [])])]), ('dict', [])))",
 'as_group/32': '((\'raises\', \'AttributeError\', "\'list\' object has no attribute \'items\'"), '
                "('inputs-after', ('tuple', [('tuple', [('list', [('tuple', [('str', "
                '"\'a\'"), (\'int\', \'1\')])]), (\'dict\', [])])]), (\'dict\', [])))',
 'as_group/33': 'sha256[ok]:7f5121c94ce914171db5090f87fe8a5b9cb6886077be8aa2cc674b6ac806fa88:457',
 'as_group/34': 'sha256[ok]:439d8fcf3dcc175ba959820a1fae517a251538dc7a177692197d8e8395fc2025:362',
 'as_group/35': '((\'raises\', \'TypeError\', "join() argument must be str, bytes, or os.PathLike '
                'object, not \'int\'"), (\'inputs-after\', (\'tuple\', [(\'dict\', [((\'int\', '
                "'1'), ('tuple', [('int', '1'), ('dict', [])])), (('int', '2'), ('dict', [])), "
                '((\'int\', \'3\'), (\'str\', "\'x\'"))])]), (\'dict\', [])))',
 'as_group/36': 'sha256[ok]:4101b9528f79897495f28b248fbb821d53c1764333c35a28d0d7da5431be4822:416',
 'as_group/37': 'sha256[ok]:5680467235368861212a8200d0f1edbbe81ad3310d6b6cffa85d4e037970dcb5:446',
 'records/0/remove_spares/dataset_summary': 'sha256[ok]:583ca7ba21f372b71eb86311ac15c2cb33cb26d77d58742e24b0431c21ddfa76:51751',
 'records/0/transform_nested/dataset_summary': 'sha256[ok]:47762113db462d891db868d92e7745659189f19f0133358104555b8b69c59189:52329',
 'records/0/remove_spares/map_projection': 'sha256[ok]:a0927af0167f3eaa9449c5a85217acb034564c2ceb46bae71583c13fcf8c96d7:20707',
 'records/0/transform_nested/map_projection': 'sha256[ok]:8b49a23bfdede8b829e4b96d916ba14120d0a57a290b4042fad47cc011c94a06:20893',
 'records/0/remove_spares/platform_position': 'sha256[ok]:6361f41205919e1df9fd632d8740e12b4020b2900a7527491c2bdc92d2dedb21:45989',
 'records/0/transform_nested/platform_position': 'sha256[ok]:a720875bf8f04ef51c55532aeab354012778e8bcb189f41573619d99f5ad65c1:44409',
 'records/0/remove_spares/attitude': 'sha256[ok]:615b5a3946879a2e479094495c9db810bd39a5545cca55d4ff566968e2240fee:7750',
 'records/0/transform_nested/attitude': 'sha256[ok]:49ac66090cea06732553be981ca3dfa1719aedf403a76087c27b02cdc2f58efb:7659',
 'records/0/remove_spares/radiometric_data': 'sha256[ok]:49330ccbf3d788f631476c5a69540b101d1cbf89b23c2df41af0840d58949dc7:4317',
 'records/0/transform_nested/radiometric_data': 'sha256[ok]:3fce553e379705e22b2f17df9d1b0706a82c6da1c27bd6114fb9ca9f720249d5:4367',
 'records/0/remove_spares/data_quality_summary': 'sha256[ok]:e663a05c4ec28a96049b3656369bd319cf19cb81334c1f271a34ca917f1a00b6:7863',
 'records/0/transform_nested/data_quality_summary': 'sha256[ok]:d37035105e61783ebe1d562099be3539b42549129ad41967f212a8add267955a:7951',
 'records/0/remove_spares/facility_related_data_1': 'sha256[ok]:d19c9ab35f9d754a11efe6c9ff52554e512037da4969b58fb1fd0a01738cc444:999',
 'records/0/transform_nested/facility_related_data_1': 'sha256[ok]:4627a61ab00e52bf0943783b8ac1c6d4edf15dd1a93eb54d5e734f7c9e11eec7:1049',
 'records/0/remove_spares/facility_related_data_5': 'sha256[ok]:b38c4435a821acd10549f61f7e7353c0145bee72b9e46bb3c0139190df9d8015:12315',
 'records/0/transform_nested/facility_related_data_5': 'sha256[ok]:c7d8fe1d99b09a03c02e06efcefee60ab4ec3bfbb6673f19cf8bd32529912084:12441',
 'records/0/transform_nested/points': 'sha256[ok]:9e1e30b253a4bcf555c578b49610d3f57017d196851946811ecb2fd495faa88a:6081',
 'records/0/transform_metadata': 'sha256[ok]:963f8944703918297be98a54043b9647cd21cdfc163733165badd92d4b73a10e:119221',
 'records/1/remove_spares/dataset_summary': 'sha256[ok]:674ee0b3fdb57e2257b0b5244a4ccd7e790b4e8ccf0d5b9ddb105be1858604e5:51846',
 'records/1/transform_nested/dataset_summary': 'sha256[ok]:0194428609aafe4294f6f2269423e2b9e9d73c30c1b320e8dc4c5a7776a4191c:52409',
 'records/1/remove_spares/map_projection': 'sha256[ok]:b2db1b2f8da7d9b8e872da4253bd4846d2a614b259ff261452c6f1c60908e848:20702',
 'records/1/transform_nested/map_projection': 'sha256[ok]:772a386dca48fe5c9d49a638bce325455b6839523955b021f6c20a5b11a396d3:20879',
 'records/1/remove_spares/platform_position': 'sha256[ok]:795bf410f7b615d566d9472281b29f20b0df98059f01ed8c402f71730d6f9057:46019',
 'records/1/transform_nested/platform_position': 'sha256[ok]:2b8605aa521d11fabddad58488736952166102183b3ff21796e227859f43f6f4:44441',
 'records/1/remove_spares/attitude': 'sha256[ok]:da18224314bf5708ff44023dda49d89c174d6fc2130d520c3670a9bf452aad16:3227',
 'records/1/transform_nested/attitude': 'sha256[ok]:cdea5f510b7c814d7529636a7225810a276872987c8cc490c6474d2976c3c2ce:3291',
 'records/1/remove_spares/radiometric_data': 'sha256[ok]:35dbbd8fc56652f63c8d746c03e84bc82ad7316ff930390ee5770171907e5f23:4315',
 'records/1/transform_nested/radiometric_data': 'sha256[ok]:cc5ae669196eecc2a0282fc936eaa8e5b07ec11cffbbf7e432644a428b41660e:4357',
 'records/1/remove_spares/data_quality_summary': 'sha256[ok]:79acce432577695f94dcbb56473df52ec91484a8e9744e26341349396cdffe8c:6898',
 'records/1/transform_nested/data_quality_summary': 'sha256[ok]:4090e7ce2ea65226e2dc15bcf4987972c145c872f9de51bbf98c0e78683459f6:6981',
 'records/1/remove_spares/facility_related_data_1': 'sha256[ok]:e7c04b7d8ee2e1f5a06af91766dee15aaa84ee519ce9e38b71a153029e7781cf:1009',
 'records/1/transform_nested/facility_related_data_1': 'sha256[ok]:c6562d577284e4ddffaf14d48918ba0fade8b066452189728664602a09346a0c:1053',
 'records/1/remove_spares/facility_related_data_5': 'sha256[ok]:355ef52f4d2c22f41c03aab62bd9fc20f70be0c374ffabd5ed37124d268a2127:12279',
 'records/1/transform_nested/facility_related_data_5': 'sha256[ok]:f900998d7b310760badf239dda15d77dcf8fa536129af4284157b038b32f4180:12407',
 'records/1/transform_nested/points': 'sha256[ok]:fc12c736a2d55d827590a93d16ce7505d6320796b2d0871c636ba062a0adc900:2497',
 'records/1/transform_metadata': 'sha256[ok]:12d8fecac1dbe8d219a1b691c04f51cc101f5ed7b643de3ef38f317ed91801c9:115751',
 'records/2/remove_spares/dataset_summary': 'sha256[ok]:e7d3612e77a43c4245f2bbbca8bf1721656a202e78f2930078be7f58e2492f3b:50986',
 'records/2/transform_nested/dataset_summary': 'sha256[ok]:756b7334ae74b2a4c7541b91660247d6424d84f95f6f25b2b3a1c6954e472f15:51547',
 'records/2/remove_spares/map_projection': 'sha256[ok]:6ec6c65a7a389e7ed0219c88fce9c97f48a945578c56a33aabe4b769fb7b1786:20436',
 'records/2/transform_nested/map_projection': 'sha256[ok]:9c4f8497e33a7f392a4db95668967798dbd2d418f0d2a953c68bf04f9389c907:20601',
 'records/2/remove_spares/platform_position': 'sha256[ok]:017412376f13d8b5f46f934fe147a3bc7ccb40208cde938426a028e3b37f7f9c:45248',
 'records/2/transform_nested/platform_position': 'sha256[ok]:0b9fbf96e068e6126106648eb335ff3bb24d9114b1623bc877ed8bcb18ce327b:43675',
 'records/2/remove_spares/attitude': 'sha256[ok]:f2e0b33dc1cd0163311389297f65047cd9695fcb10d72d8d87f86173e3438cc4:965',
 'records/2/transform_nested/attitude': 'sha256[ok]:7d1abe4286a1d71ef257317970a4a8f8c6543e2bbf6eee28315016c9fc55c4dd:1005',
 'records/2/remove_spares/radiometric_data': 'sha256[ok]:08270d551511841df590a9d0c205d9d1c5e22bb493025d5d0b130ae1f29c37f1:4241',
 'records/2/transform_nested/radiometric_data': 'sha256[ok]:5191424ce3b32bb4a288a9ccde9e945a63d0362440385173252546b29d9c7784:4287',
 'records/2/remove_spares/data_quality_summary': 'sha256[ok]:0b3e5c677a07af94d6d64bea27390f99b22c0bfc1aa25d757c823b1bbf1b4b43:5893',
 'records/2/transform_nested/data_quality_summary': 'sha256[ok]:90df8595c0dbba4fa59be8632d14a576192bca1aa072bf92e6481d6f882f68e0:5975',
 'records/2/remove_spares/facility_related_data_1': 'sha256[ok]:eac3771dde0d9a5c2262627e79f5369de4a4f0da74e377592e66b33471edfb38:996',
 'records/2/transform_nested/facility_related_data_1': 'sha256[ok]:e84fb2695767b3278edf766a83bc9e7ecf401fee3d91d1ab00dc9196694fe177:1035',
 'records/2/remove_spares/facility_related_data_5': 'sha256[ok]:e824ba2b03d2aff3a3f587a0b02d8f6715d72c036a0de688e2401fe7a303cdbc:11891',
 'records/2/transform_nested/facility_related_data_5': 'sha256[ok]:00bd18f09c06717a7210f76ee5820db4210dedf47792b335ec08d94a8bfa55d4:12027',
 'records/2/transform_nested/points': '((\'raises\', \'AttributeError\', "\'list\' object has no '
                                      'attribute \'keys\'"), (\'inputs-after\', (\'tuple\', '
                                      "[('list', [])]), ('dict', [])))",
 'records/2/transform_metadata': 'sha256[raises]:99dd46087f73701d80d08da5701156e51b9d154cab0c1f7906156701657640ad:71107',
 'records/3/remove_spares/dataset_summary': 'sha256[ok]:ab79da03dce20ae143608e18e443db92984edd4aa6fe4bc7dfcb390474d1b96c:51584',
 'records/3/transform_nested/dataset_summary': 'sha256[ok]:5c15ca06c2ba6d4df0f637f8a67e53802e17d223fc1dd213aa6fc1d1dcb45845:52139',
 'records/3/remove_spares/map_projection': 'sha256[ok]:34700adf8ebdbac0eeb71ef2b87e59350e021084056b293c839899abf0da5274:20699',
 'records/3/transform_nested/map_projection': 'sha256[ok]:9c8779a5573a6193c30d624cedfc3a10e95ec605c1766b1c370dee3e2d54c520:20873',
 'records/3/remove_spares/platform_position': 'sha256[ok]:cf2c7bd2d530d2e7c55333cc2597a19ed616d9711f9840d151684835b5e80076:45889',
 'records/3/transform_nested/platform_position': 'sha256[ok]:39cc21efcb521d73aa56e617f492ee866fbdfc18c073194bc3adc1852d755b2c:44325',
 'records/3/remove_spares/attitude': 'sha256[ok]:a44c2d449c3e2e5e3f43ab157d3c1fbe424ac995a619615f86ab34de013da816:16750',
 'records/3/transform_nested/attitude': 'sha256[ok]:ee569076e00fe62d2290ab556941f241fe9aa6bd4c5d124cd42e087be8c24ba0:16343',
 'records/3/remove_spares/radiometric_data': 'sha256[ok]:218ebab3e062d898289d880923518ced806b8c23bf625f3966b330b417e60e74:4268',
 'records/3/transform_nested/radiometric_data': 'sha256[ok]:1692bca09b1bde704653996a187c15364ba291f0f910b2d2a71c5a324bb77c23:4309',
 'records/3/remove_spares/data_quality_summary': 'sha256[ok]:69bf5f97282e6d3823582de87576945186242b4823042ca203fbf49b1616243c:13601',
 'records/3/transform_nested/data_quality_summary': 'sha256[ok]:7b601141cc657513870c4dc755200222275cc398efc27381ae20f47b2c3123ff:13689',
 'records/3/remove_spares/facility_related_data_1': 'sha256[ok]:b86ce98e340852dac29a905903b4c446b438ac4fc1c1f99208bb594192ede139:995',
 'records/3/transform_nested/facility_related_data_1': 'sha256[ok]:b05bed3eff1f55522c0e22f5bdf10126a477caf57eec5ee868e398180a30f473:1033',
 'records/3/remove_spares/facility_related_data_5': 'sha256[ok]:518d8310d58b06270a1c6575cca9eaef505fa28765a0b8c26238d620b7f27d46:12285',
 'records/3/transform_nested/facility_related_data_5': 'sha256[ok]:b7a495219cf87e669acd7301188712cf62b188f06930fc0c571a42ec0b2106f3:12417',
 'records/3/transform_nested/points': 'sha256[ok]:1065f26209b2a90dd4619ae361cbd2d4227484a176c7306c8f0750278239f431:13209',
 'records/3/transform_metadata': 'sha256[ok]:4f3bc7c41de93399e28add21a2c98da7fa0a8151742f8f38924d056d0c5aab72:128357'}
# --- END EXPECTED ---


def test_equivalence():
    assert main(build_cases, EXPECTED, __file__) == 0


if __name__ == "__main__":
    sys.exit(main(build_cases, EXPECTED, __file__))
