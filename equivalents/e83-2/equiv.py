"""Equivalence check for refactoring 2 (ceos_alos2/sar_image/caching/encoders.py).

Run as

    cd /tmp/wt10/e83 && PYTHONPATH=/tmp/wt10/e83 /venv/bin/python _eq/2/equiv.py

The expectations below were recorded from the UNCHANGED code (`--record`
prints them); the script has to pass with and without the patch.
"""

import re
import sys
import warnings

import fsspec
import numpy as np

from ceos_alos2.array import Array
from ceos_alos2.hierarchy import Group, Variable
from ceos_alos2.sar_image import caching
from ceos_alos2.sar_image.caching import encoders

warnings.simplefilter("ignore")


def dummy_array(*, path="/path/to", url="file", shape=(4, 3), dtype="int16", rpc=2, type_code="IU2"):
    byte_ranges = [(x * 10 + 5, (x + 1) * 10) for x in range(shape[0])]
    fs = fsspec.filesystem("dir", path=path, fs=fsspec.filesystem("memory"))

    return Array(
        fs=fs,
        url=url,
        byte_ranges=byte_ranges,
        shape=shape,
        dtype=dtype,
        type_code=type_code,
        records_per_chunk=rpc,
    )


def typed(obj):
    """repr including the types of everything nested"""
    if isinstance(obj, dict):
        inner = ", ".join(f"{typed(k)}: {typed(v)}" for k, v in obj.items())
        return f"{type(obj).__name__}{{{inner}}}"
    if isinstance(obj, (list, tuple)):
        inner = ", ".join(typed(v) for v in obj)
        return f"{type(obj).__name__}[{inner}]"
    return f"{type(obj).__name__}:" + re.sub(r" at 0x[0-9a-f]+", " at 0x...", repr(obj))


def observe(func, *args, **kwargs):
    try:
        result = func(*args, **kwargs)
    except BaseException as e:  # noqa: B902
        message = re.sub(r" at 0x[0-9a-f]+", " at 0x...", str(e))
        return ["raise", type(e).__name__, message, type(e.__cause__).__name__]
    return ["return", typed(result)]


class NoData:
    url = "u"
    path = "/"
    attrs = {}


class NoUrl:
    data = {}
    path = "/"
    attrs = {}


def array_cases():
    yield np.array([0, 1, 2], dtype="int32")
    yield np.array([0.0, 1.0, 2.0], dtype="float16")
    yield np.array([0.5, np.nan, np.inf, -0.0], dtype="float64")
    yield np.array([], dtype="float32")
    yield np.array([], dtype="int8")
    yield np.array(7, dtype="uint8")
    yield np.arange(12, dtype="int64").reshape(3, 4)
    yield np.zeros((2, 0, 3), dtype="int16")
    yield np.array([True, False])
    yield np.array([1 + 2j, 3 - 4j], dtype="complex64")
    yield np.array(["HH", "HV", ""], dtype="U2")
    yield np.array([b"HH", b"HV"], dtype="S2")
    yield np.array(["a", 1, None, (1, 2)], dtype=object)
    yield np.array([(1, 2.0), (3, 4.0)], dtype=[("a", "i4"), ("b", "f8")])
    yield np.array([b"ab", b"cd"], dtype="V2")
    yield [0, 1, 2]
    yield [[1.5, 2.5], [3.5, 4.5]]
    yield (1, 2, 3)
    yield []
    yield 5
    yield 2.5
    yield "scalar text"
    yield None
    yield [[1, 2], [3]]
    yield {"a": 1}
    yield range(4)
    yield np.ma.masked_array([1, 2, 3], mask=[False, True, False])
    yield np.float32(1.5)
    yield np.datetime64("2019-01-01", "s")
    yield np.timedelta64(5, "m")
    yield [np.datetime64("2019-01-01", "s"), np.datetime64("2019-01-02", "s")]
    # timedeltas
    for units in ["s", "ms", "us", "ns", "m", "h", "D", "W", "M", "Y", "10s", "25us", "ps"]:
        yield np.array([0, 1, 2, -5], dtype=f"timedelta64[{units}]")
    yield np.array([], dtype="timedelta64[s]")
    yield np.array(3, dtype="timedelta64[ms]")
    yield np.array([[0, 1], [2, 3]], dtype="timedelta64[s]")
    yield np.array([1, "NaT", 3], dtype="timedelta64[s]")
    yield np.array([1, 2], dtype="timedelta64")
    # datetimes
    yield np.array(["2019-01-01 00:01:00", "2019-01-02 00:02:00"], dtype="datetime64[ms]")
    yield np.array(["2019-01-01 00:00:00"], dtype="datetime64[ns]")
    yield np.array(["2019-01-01 00:00:00", "2020-01-01 00:00:00"], dtype="datetime64[s]")
    yield np.array(["2019-01-01", "2020-01-01", "2021-01-01", "2022-01-01"], dtype="datetime64[ns]")
    yield np.array(["2020-01-01", "2019-01-01"], dtype="datetime64[D]")
    yield np.array(["2020-01", "2021-07"], dtype="datetime64[M]")
    yield np.array(["2020", "1969"], dtype="datetime64[Y]")
    yield np.array(["2019-01-01T00:00:00", "2019-01-01T00:00:30"], dtype="datetime64[10s]")
    yield np.array(["2019-01-01T00:00:00", "2019-01-01T00:00:01"], dtype="datetime64[250ms]")
    yield np.array(["2019-01-01", "NaT", "2019-01-03"], dtype="datetime64[s]")
    yield np.array(["NaT", "2019-01-03"], dtype="datetime64[s]")
    yield np.array([], dtype="datetime64[s]")
    yield np.array("2019-01-01", dtype="datetime64[s]")
    yield np.array([["2019-01-01", "2019-01-02"], ["2019-01-03", "2019-01-04"]], dtype="datetime64[D]")
    yield np.array(["2019-01-01", "2019-01-02"], dtype="datetime64[us]")[::-1]
    # backend arrays
    yield dummy_array()
    yield dummy_array(shape=(0, 3))
    yield dummy_array(path="/other/root", url="IMG-HH", shape=(2, 5), dtype="complex64", type_code="C*8")
    yield dummy_array(rpc=None)


def hierarchy_cases():
    attrs = {"a": 1, "b": (1, 2), "c": {"d": [1, (2, 3)]}}
    var1 = Variable("x", np.array([1, 2, 3], dtype="int8"), {})
    var2 = Variable(["x", "y"], np.arange(6.0).reshape(2, 3), attrs)
    var3 = Variable("t", np.array(["2019-01-01", "2019-01-03"], dtype="datetime64[s]"), {"u": "s"})
    var4 = Variable("dt", np.array([1, 2], dtype="timedelta64[ms]"), {})
    var5 = Variable(["rows", "cols"], dummy_array(), {"n": 1})
    var6 = Variable([], np.array(1), {})
    var7 = Variable("x", [1, 2, 3], {})
    bad_var = Variable("x", [[1], [2, 3]], {})

    yield var1
    yield var2
    yield var3
    yield var4
    yield var5
    yield var6
    yield var7
    yield bad_var

    empty = Group(path=None, url="s3://bucket/data", data={}, attrs={})
    flat = Group(path="/", url="memory:///x", data={"v1": var1, "v5": var5, "v3": var3}, attrs=attrs)
    nested = Group(
        path=None,
        url="file:///root",
        data={
            "z": var2,
            "sub": Group(path=None, url=None, data={"v4": var4, "leaf": empty}, attrs={"k": "v"}),
            "a": var1,
            "other": flat,
        },
        attrs={},
    )
    no_url = Group(path="somewhere", url=None, data={"v": var6}, attrs={})
    broken = Group(path=None, url="u", data={"ok": var1, "bad": bad_var, "later": var3}, attrs={})
    strange = Group(path=None, url="u", data={"ok": var1}, attrs={})
    strange.data["int"] = 1
    strange.data["dict"] = {"data": 1}

    yield empty
    yield flat
    yield nested
    yield no_url
    yield broken
    yield strange

    # not part of a hierarchy
    yield None
    yield 1
    yield "text"
    yield {"__type__": "group"}
    yield [var1]
    yield np.array([1, 2])
    yield dummy_array()
    yield NoData()
    yield NoUrl()
    yield object()


def identities():
    """the pieces that are handed through must stay the very same objects"""
    attrs = {"a": [1, 2]}
    dims = ["x"]
    var = Variable(dims, np.array([1, 2]), attrs)
    arr = dummy_array()
    group = Group(path=None, url="u", data={"v": var, "w": Variable(["r", "c"], arr, {})}, attrs=attrs)

    enc_var = encoders.encode_variable(var)
    enc_group = encoders.encode_group(group)
    enc_arr = encoders.encode_array(arr)
    first = encoders.encode_array(np.array([1, 2]))
    first["encoding"]["polluted"] = True
    first["data"].append("polluted")
    second = encoders.encode_array(np.array([1, 2]))
    marker = object()

    return [
        enc_var["attrs"] is attrs,
        enc_var["dims"] is var.dims,
        enc_group["attrs"] is attrs,
        enc_group["data"] is not group.data,
        list(enc_group["data"]) == list(group.data),
        enc_group["data"]["v"]["attrs"] is attrs,
        enc_arr["byte_ranges"] is arr.byte_ranges,
        enc_arr["shape"] is arr.shape,
        first["encoding"] is not second["encoding"],
        typed(second),
        encoders.encode_hierarchy(marker) is marker,
        encoders.encode_hierarchy(attrs) is attrs,
    ]


def replaced_encoders():
    """the specialised encoders are looked up by name whenever an array is encoded"""
    original = encoders.encode_datetime, encoders.encode_timedelta
    encoders.encode_datetime = lambda obj: ("datetime", {"replaced": 1})
    encoders.encode_timedelta = lambda obj: ("timedelta", {"replaced": 2})
    try:
        return [
            observe(encoders.encode_array, np.array(["2019-01-01"], dtype="datetime64[s]")),
            observe(encoders.encode_array, np.array([1], dtype="timedelta64[s]")),
            observe(encoders.encode_array, np.array([1], dtype="int8")),
        ]
    finally:
        encoders.encode_datetime, encoders.encode_timedelta = original


def run():
    observed = {}
    observed["encode_array"] = [observe(encoders.encode_array, arr) for arr in array_cases()]
    observed["encode_array_again"] = [observe(encoders.encode_array, arr) for arr in array_cases()]
    observed["encode_hierarchy"] = [observe(encoders.encode_hierarchy, o) for o in hierarchy_cases()]
    observed["encode_group"] = [observe(encoders.encode_group, o) for o in hierarchy_cases()]
    observed["encode_variable"] = [observe(encoders.encode_variable, o) for o in hierarchy_cases()]
    observed["preprocess"] = [
        observe(lambda o: encoders.preprocess(encoders.encode_hierarchy(o)), o)
        for o in hierarchy_cases()
    ]
    observed["json"] = [observe(caching.encode, o) for o in hierarchy_cases()]
    observed["identities"] = identities()
    observed["replaced"] = replaced_encoders()
    observed["api"] = [
        sorted(
            name
            for name in [
                "encode_timedelta",
                "encode_datetime",
                "encode_array",
                "encode_variable",
                "encode_group",
                "encode_hierarchy",
                "preprocess",
            ]
            if callable(getattr(encoders, name, None))
        ),
        caching.encode_hierarchy is encoders.encode_hierarchy,
        caching.preprocess is encoders.preprocess,
    ]

    return observed


EXPECTED = {'api': [['encode_array',
          'encode_datetime',
          'encode_group',
          'encode_hierarchy',
          'encode_timedelta',
          'encode_variable',
          'preprocess'],
         True,
         True],
 'encode_array': [['return',
                   "dict{str:'__type__': str:'array', str:'dtype': str:'int32', str:'data': "
                   "list[int:0, int:1, int:2], str:'encoding': dict{}}"],
                  ['return',
                   "dict{str:'__type__': str:'array', str:'dtype': str:'float16', str:'data': "
                   "list[float:0.0, float:1.0, float:2.0], str:'encoding': dict{}}"],
                  ['return',
                   "dict{str:'__type__': str:'array', str:'dtype': str:'float64', str:'data': "
                   "list[float:0.5, float:nan, float:inf, float:-0.0], str:'encoding': dict{}}"],
                  ['return',
                   "dict{str:'__type__': str:'array', str:'dtype': str:'float32', str:'data': "
                   "list[], str:'encoding': dict{}}"],
                  ['return',
                   "dict{str:'__type__': str:'array', str:'dtype': str:'int8', str:'data': list[], "
                   "str:'encoding': dict{}}"],
                  ['return',
                   "dict{str:'__type__': str:'array', str:'dtype': str:'uint8', str:'data': int:7, "
                   "str:'encoding': dict{}}"],
                  ['return',
                   "dict{str:'__type__': str:'array', str:'dtype': str:'int64', str:'data': "
                   'list[list[int:0, int:1, int:2, int:3], list[int:4, int:5, int:6, int:7], '
                   "list[int:8, int:9, int:10, int:11]], str:'encoding': dict{}}"],
                  ['return',
                   "dict{str:'__type__': str:'array', str:'dtype': str:'int16', str:'data': "
                   "list[list[], list[]], str:'encoding': dict{}}"],
                  ['return',
                   "dict{str:'__type__': str:'array', str:'dtype': str:'bool', str:'data': "
                   "list[bool:True, bool:False], str:'encoding': dict{}}"],
                  ['return',
                   "dict{str:'__type__': str:'array', str:'dtype': str:'complex64', str:'data': "
                   "list[complex:(1+2j), complex:(3-4j)], str:'encoding': dict{}}"],
                  ['return',
                   "dict{str:'__type__': str:'array', str:'dtype': str:'<U2', str:'data': "
                   "list[str:'HH', str:'HV', str:''], str:'encoding': dict{}}"],
                  ['return',
                   "dict{str:'__type__': str:'array', str:'dtype': str:'|S2', str:'data': "
                   "list[bytes:b'HH', bytes:b'HV'], str:'encoding': dict{}}"],
                  ['return',
                   "dict{str:'__type__': str:'array', str:'dtype': str:'object', str:'data': "
                   "list[str:'a', int:1, NoneType:None, tuple[int:1, int:2]], str:'encoding': "
                   'dict{}}'],
                  ['return',
                   'dict{str:\'__type__\': str:\'array\', str:\'dtype\': str:"[(\'a\', \'<i4\'), '
                   '(\'b\', \'<f8\')]", str:\'data\': list[tuple[int:1, float:2.0], tuple[int:3, '
                   "float:4.0]], str:'encoding': dict{}}"],
                  ['return',
                   "dict{str:'__type__': str:'array', str:'dtype': str:'|V2', str:'data': "
                   "list[bytes:b'ab', bytes:b'cd'], str:'encoding': dict{}}"],
                  ['return',
                   "dict{str:'__type__': str:'array', str:'dtype': str:'int64', str:'data': "
                   "list[int:0, int:1, int:2], str:'encoding': dict{}}"],
                  ['return',
                   "dict{str:'__type__': str:'array', str:'dtype': str:'float64', str:'data': "
                   "list[list[float:1.5, float:2.5], list[float:3.5, float:4.5]], str:'encoding': "
                   'dict{}}'],
                  ['return',
                   "dict{str:'__type__': str:'array', str:'dtype': str:'int64', str:'data': "
                   "list[int:1, int:2, int:3], str:'encoding': dict{}}"],
                  ['return',
                   "dict{str:'__type__': str:'array', str:'dtype': str:'float64', str:'data': "
                   "list[], str:'encoding': dict{}}"],
                  ['return',
                   "dict{str:'__type__': str:'array', str:'dtype': str:'int64', str:'data': int:5, "
                   "str:'encoding': dict{}}"],
                  ['return',
                   "dict{str:'__type__': str:'array', str:'dtype': str:'float64', str:'data': "
                   "float:2.5, str:'encoding': dict{}}"],
                  ['return',
                   "dict{str:'__type__': str:'array', str:'dtype': str:'<U11', str:'data': "
                   "str:'scalar text', str:'encoding': dict{}}"],
                  ['return',
                   "dict{str:'__type__': str:'array', str:'dtype': str:'object', str:'data': "
                   "NoneType:None, str:'encoding': dict{}}"],
                  ['raise',
                   'ValueError',
                   'setting an array element with a sequence. The requested array has an '
                   'inhomogeneous shape after 1 dimensions. The detected shape was (2,) + '
                   'inhomogeneous part.',
                   'NoneType'],
                  ['return',
                   "dict{str:'__type__': str:'array', str:'dtype': str:'object', str:'data': "
                   "dict{str:'a': int:1}, str:'encoding': dict{}}"],
                  ['return',
                   "dict{str:'__type__': str:'array', str:'dtype': str:'int64', str:'data': "
                   "list[int:0, int:1, int:2, int:3], str:'encoding': dict{}}"],
                  ['return',
                   "dict{str:'__type__': str:'array', str:'dtype': str:'int64', str:'data': "
                   "list[int:1, int:2, int:3], str:'encoding': dict{}}"],
                  ['return',
                   "dict{str:'__type__': str:'array', str:'dtype': str:'float32', str:'data': "
                   "float:1.5, str:'encoding': dict{}}"],
                  ['raise',
                   'IndexError',
                   'too many indices for array: array is 0-dimensional, but 1 were indexed',
                   'NoneType'],
                  ['return',
                   "dict{str:'__type__': str:'array', str:'dtype': str:'timedelta64[m]', "
                   "str:'data': int:5, str:'encoding': dict{str:'units': str:'m'}}"],
                  ['return',
                   "dict{str:'__type__': str:'array', str:'dtype': str:'datetime64[s]', "
                   "str:'data': list[int:0, int:86400], str:'encoding': dict{str:'reference': "
                   "str:'2019-01-01T00:00:00', str:'units': str:'s'}}"],
                  ['return',
                   "dict{str:'__type__': str:'array', str:'dtype': str:'timedelta64[s]', "
                   "str:'data': list[int:0, int:1, int:2, int:-5], str:'encoding': "
                   "dict{str:'units': str:'s'}}"],
                  ['return',
                   "dict{str:'__type__': str:'array', str:'dtype': str:'timedelta64[ms]', "
                   "str:'data': list[int:0, int:1, int:2, int:-5], str:'encoding': "
                   "dict{str:'units': str:'ms'}}"],
                  ['return',
                   "dict{str:'__type__': str:'array', str:'dtype': str:'timedelta64[us]', "
                   "str:'data': list[int:0, int:1, int:2, int:-5], str:'encoding': "
                   "dict{str:'units': str:'us'}}"],
                  ['return',
                   "dict{str:'__type__': str:'array', str:'dtype': str:'timedelta64[ns]', "
                   "str:'data': list[int:0, int:1, int:2, int:-5], str:'encoding': "
                   "dict{str:'units': str:'ns'}}"],
                  ['return',
                   "dict{str:'__type__': str:'array', str:'dtype': str:'timedelta64[m]', "
                   "str:'data': list[int:0, int:1, int:2, int:-5], str:'encoding': "
                   "dict{str:'units': str:'m'}}"],
                  ['return',
                   "dict{str:'__type__': str:'array', str:'dtype': str:'timedelta64[h]', "
                   "str:'data': list[int:0, int:1, int:2, int:-5], str:'encoding': "
                   "dict{str:'units': str:'h'}}"],
                  ['return',
                   "dict{str:'__type__': str:'array', str:'dtype': str:'timedelta64[D]', "
                   "str:'data': list[int:0, int:1, int:2, int:-5], str:'encoding': "
                   "dict{str:'units': str:'D'}}"],
                  ['return',
                   "dict{str:'__type__': str:'array', str:'dtype': str:'timedelta64[W]', "
                   "str:'data': list[int:0, int:1, int:2, int:-5], str:'encoding': "
                   "dict{str:'units': str:'W'}}"],
                  ['return',
                   "dict{str:'__type__': str:'array', str:'dtype': str:'timedelta64[M]', "
                   "str:'data': list[int:0, int:1, int:2, int:-5], str:'encoding': "
                   "dict{str:'units': str:'M'}}"],
                  ['return',
                   "dict{str:'__type__': str:'array', str:'dtype': str:'timedelta64[Y]', "
                   "str:'data': list[int:0, int:1, int:2, int:-5], str:'encoding': "
                   "dict{str:'units': str:'Y'}}"],
                  ['return',
                   "dict{str:'__type__': str:'array', str:'dtype': str:'timedelta64[10s]', "
                   "str:'data': list[int:0, int:1, int:2, int:-5], str:'encoding': "
                   "dict{str:'units': str:'s'}}"],
                  ['return',
                   "dict{str:'__type__': str:'array', str:'dtype': str:'timedelta64[25us]', "
                   "str:'data': list[int:0, int:1, int:2, int:-5], str:'encoding': "
                   "dict{str:'units': str:'us'}}"],
                  ['return',
                   "dict{str:'__type__': str:'array', str:'dtype': str:'timedelta64[ps]', "
                   "str:'data': list[int:0, int:1, int:2, int:-5], str:'encoding': "
                   "dict{str:'units': str:'ps'}}"],
                  ['return',
                   "dict{str:'__type__': str:'array', str:'dtype': str:'timedelta64[s]', "
                   "str:'data': list[], str:'encoding': dict{str:'units': str:'s'}}"],
                  ['return',
                   "dict{str:'__type__': str:'array', str:'dtype': str:'timedelta64[ms]', "
                   "str:'data': int:3, str:'encoding': dict{str:'units': str:'ms'}}"],
                  ['return',
                   "dict{str:'__type__': str:'array', str:'dtype': str:'timedelta64[s]', "
                   "str:'data': list[list[int:0, int:1], list[int:2, int:3]], str:'encoding': "
                   "dict{str:'units': str:'s'}}"],
                  ['return',
                   "dict{str:'__type__': str:'array', str:'dtype': str:'timedelta64[s]', "
                   "str:'data': list[int:1, int:-9223372036854775808, int:3], str:'encoding': "
                   "dict{str:'units': str:'s'}}"],
                  ['return',
                   "dict{str:'__type__': str:'array', str:'dtype': str:'timedelta64', str:'data': "
                   "list[int:1, int:2], str:'encoding': dict{str:'units': str:'generic'}}"],
                  ['return',
                   "dict{str:'__type__': str:'array', str:'dtype': str:'datetime64[ms]', "
                   "str:'data': list[int:0, int:86460000], str:'encoding': dict{str:'reference': "
                   "str:'2019-01-01T00:01:00.000', str:'units': str:'ms'}}"],
                  ['return',
                   "dict{str:'__type__': str:'array', str:'dtype': str:'datetime64[ns]', "
                   "str:'data': list[int:0], str:'encoding': dict{str:'reference': "
                   "str:'2019-01-01T00:00:00.000000000', str:'units': str:'ns'}}"],
                  ['return',
                   "dict{str:'__type__': str:'array', str:'dtype': str:'datetime64[s]', "
                   "str:'data': list[int:0, int:31536000], str:'encoding': dict{str:'reference': "
                   "str:'2019-01-01T00:00:00', str:'units': str:'s'}}"],
                  ['return',
                   "dict{str:'__type__': str:'array', str:'dtype': str:'datetime64[ns]', "
                   "str:'data': list[int:0, int:31536000000000000, int:63158400000000000, "
                   "int:94694400000000000], str:'encoding': dict{str:'reference': "
                   "str:'2019-01-01T00:00:00.000000000', str:'units': str:'ns'}}"],
                  ['return',
                   "dict{str:'__type__': str:'array', str:'dtype': str:'datetime64[D]', "
                   "str:'data': list[int:0, int:-365], str:'encoding': dict{str:'reference': "
                   "str:'2020-01-01', str:'units': str:'D'}}"],
                  ['return',
                   "dict{str:'__type__': str:'array', str:'dtype': str:'datetime64[M]', "
                   "str:'data': list[int:0, int:18], str:'encoding': dict{str:'reference': "
                   "str:'2020-01', str:'units': str:'M'}}"],
                  ['return',
                   "dict{str:'__type__': str:'array', str:'dtype': str:'datetime64[Y]', "
                   "str:'data': list[int:0, int:-51], str:'encoding': dict{str:'reference': "
                   "str:'2020', str:'units': str:'Y'}}"],
                  ['return',
                   "dict{str:'__type__': str:'array', str:'dtype': str:'datetime64[10s]', "
                   "str:'data': list[int:0, int:3], str:'encoding': dict{str:'reference': "
                   "str:'2019-01-01T00:00:00', str:'units': str:'10s'}}"],
                  ['return',
                   "dict{str:'__type__': str:'array', str:'dtype': str:'datetime64[250ms]', "
                   "str:'data': list[int:0, int:4], str:'encoding': dict{str:'reference': "
                   "str:'2019-01-01T00:00:00.000', str:'units': str:'250ms'}}"],
                  ['return',
                   "dict{str:'__type__': str:'array', str:'dtype': str:'datetime64[s]', "
                   "str:'data': list[int:0, int:-9223372036854775808, int:172800], str:'encoding': "
                   "dict{str:'reference': str:'2019-01-01T00:00:00', str:'units': str:'s'}}"],
                  ['return',
                   "dict{str:'__type__': str:'array', str:'dtype': str:'datetime64[s]', "
                   "str:'data': list[int:-9223372036854775808, int:-9223372036854775808], "
                   "str:'encoding': dict{str:'reference': str:'NaT', str:'units': str:'s'}}"],
                  ['raise',
                   'IndexError',
                   'index 0 is out of bounds for axis 0 with size 0',
                   'NoneType'],
                  ['raise',
                   'IndexError',
                   'too many indices for array: array is 0-dimensional, but 1 were indexed',
                   'NoneType'],
                  ['return',
                   "dict{str:'__type__': str:'array', str:'dtype': str:'datetime64[D]', "
                   "str:'data': list[list[int:0, int:0], list[int:2, int:2]], str:'encoding': "
                   'dict{str:\'reference\': str:"[\'2019-01-01\' \'2019-01-02\']", str:\'units\': '
                   "str:'D'}}"],
                  ['return',
                   "dict{str:'__type__': str:'array', str:'dtype': str:'datetime64[us]', "
                   "str:'data': list[int:0, int:-86400000000], str:'encoding': "
                   "dict{str:'reference': str:'2019-01-02T00:00:00.000000', str:'units': "
                   "str:'us'}}"],
                  ['return',
                   "dict{str:'__type__': str:'backend_array', str:'root': str:'/path/to', "
                   "str:'url': str:'file', str:'shape': tuple[int:4, int:3], str:'dtype': "
                   "str:'int16', str:'byte_ranges': list[tuple[int:5, int:10], tuple[int:15, "
                   "int:20], tuple[int:25, int:30], tuple[int:35, int:40]], str:'type_code': "
                   "str:'IU2'}"],
                  ['return',
                   "dict{str:'__type__': str:'backend_array', str:'root': str:'/path/to', "
                   "str:'url': str:'file', str:'shape': tuple[int:0, int:3], str:'dtype': "
                   "str:'int16', str:'byte_ranges': list[], str:'type_code': str:'IU2'}"],
                  ['return',
                   "dict{str:'__type__': str:'backend_array', str:'root': str:'/other/root', "
                   "str:'url': str:'IMG-HH', str:'shape': tuple[int:2, int:5], str:'dtype': "
                   "str:'complex64', str:'byte_ranges': list[tuple[int:5, int:10], tuple[int:15, "
                   "int:20]], str:'type_code': str:'C*8'}"],
                  ['return',
                   "dict{str:'__type__': str:'backend_array', str:'root': str:'/path/to', "
                   "str:'url': str:'file', str:'shape': tuple[int:4, int:3], str:'dtype': "
                   "str:'int16', str:'byte_ranges': list[tuple[int:5, int:10], tuple[int:15, "
                   "int:20], tuple[int:25, int:30], tuple[int:35, int:40]], str:'type_code': "
                   "str:'IU2'}"]],
 'encode_array_again': [['return',
                         "dict{str:'__type__': str:'array', str:'dtype': str:'int32', str:'data': "
                         "list[int:0, int:1, int:2], str:'encoding': dict{}}"],
                        ['return',
                         "dict{str:'__type__': str:'array', str:'dtype': str:'float16', "
                         "str:'data': list[float:0.0, float:1.0, float:2.0], str:'encoding': "
                         'dict{}}'],
                        ['return',
                         "dict{str:'__type__': str:'array', str:'dtype': str:'float64', "
                         "str:'data': list[float:0.5, float:nan, float:inf, float:-0.0], "
                         "str:'encoding': dict{}}"],
                        ['return',
                         "dict{str:'__type__': str:'array', str:'dtype': str:'float32', "
                         "str:'data': list[], str:'encoding': dict{}}"],
                        ['return',
                         "dict{str:'__type__': str:'array', str:'dtype': str:'int8', str:'data': "
                         "list[], str:'encoding': dict{}}"],
                        ['return',
                         "dict{str:'__type__': str:'array', str:'dtype': str:'uint8', str:'data': "
                         "int:7, str:'encoding': dict{}}"],
                        ['return',
                         "dict{str:'__type__': str:'array', str:'dtype': str:'int64', str:'data': "
                         'list[list[int:0, int:1, int:2, int:3], list[int:4, int:5, int:6, int:7], '
                         "list[int:8, int:9, int:10, int:11]], str:'encoding': dict{}}"],
                        ['return',
                         "dict{str:'__type__': str:'array', str:'dtype': str:'int16', str:'data': "
                         "list[list[], list[]], str:'encoding': dict{}}"],
                        ['return',
                         "dict{str:'__type__': str:'array', str:'dtype': str:'bool', str:'data': "
                         "list[bool:True, bool:False], str:'encoding': dict{}}"],
                        ['return',
                         "dict{str:'__type__': str:'array', str:'dtype': str:'complex64', "
                         "str:'data': list[complex:(1+2j), complex:(3-4j)], str:'encoding': "
                         'dict{}}'],
                        ['return',
                         "dict{str:'__type__': str:'array', str:'dtype': str:'<U2', str:'data': "
                         "list[str:'HH', str:'HV', str:''], str:'encoding': dict{}}"],
                        ['return',
                         "dict{str:'__type__': str:'array', str:'dtype': str:'|S2', str:'data': "
                         "list[bytes:b'HH', bytes:b'HV'], str:'encoding': dict{}}"],
                        ['return',
                         "dict{str:'__type__': str:'array', str:'dtype': str:'object', str:'data': "
                         "list[str:'a', int:1, NoneType:None, tuple[int:1, int:2]], "
                         "str:'encoding': dict{}}"],
                        ['return',
                         'dict{str:\'__type__\': str:\'array\', str:\'dtype\': str:"[(\'a\', '
                         '\'<i4\'), (\'b\', \'<f8\')]", str:\'data\': list[tuple[int:1, '
                         "float:2.0], tuple[int:3, float:4.0]], str:'encoding': dict{}}"],
                        ['return',
                         "dict{str:'__type__': str:'array', str:'dtype': str:'|V2', str:'data': "
                         "list[bytes:b'ab', bytes:b'cd'], str:'encoding': dict{}}"],
                        ['return',
                         "dict{str:'__type__': str:'array', str:'dtype': str:'int64', str:'data': "
                         "list[int:0, int:1, int:2], str:'encoding': dict{}}"],
                        ['return',
                         "dict{str:'__type__': str:'array', str:'dtype': str:'float64', "
                         "str:'data': list[list[float:1.5, float:2.5], list[float:3.5, "
                         "float:4.5]], str:'encoding': dict{}}"],
                        ['return',
                         "dict{str:'__type__': str:'array', str:'dtype': str:'int64', str:'data': "
                         "list[int:1, int:2, int:3], str:'encoding': dict{}}"],
                        ['return',
                         "dict{str:'__type__': str:'array', str:'dtype': str:'float64', "
                         "str:'data': list[], str:'encoding': dict{}}"],
                        ['return',
                         "dict{str:'__type__': str:'array', str:'dtype': str:'int64', str:'data': "
                         "int:5, str:'encoding': dict{}}"],
                        ['return',
                         "dict{str:'__type__': str:'array', str:'dtype': str:'float64', "
                         "str:'data': float:2.5, str:'encoding': dict{}}"],
                        ['return',
                         "dict{str:'__type__': str:'array', str:'dtype': str:'<U11', str:'data': "
                         "str:'scalar text', str:'encoding': dict{}}"],
                        ['return',
                         "dict{str:'__type__': str:'array', str:'dtype': str:'object', str:'data': "
                         "NoneType:None, str:'encoding': dict{}}"],
                        ['raise',
                         'ValueError',
                         'setting an array element with a sequence. The requested array has an '
                         'inhomogeneous shape after 1 dimensions. The detected shape was (2,) + '
                         'inhomogeneous part.',
                         'NoneType'],
                        ['return',
                         "dict{str:'__type__': str:'array', str:'dtype': str:'object', str:'data': "
                         "dict{str:'a': int:1}, str:'encoding': dict{}}"],
                        ['return',
                         "dict{str:'__type__': str:'array', str:'dtype': str:'int64', str:'data': "
                         "list[int:0, int:1, int:2, int:3], str:'encoding': dict{}}"],
                        ['return',
                         "dict{str:'__type__': str:'array', str:'dtype': str:'int64', str:'data': "
                         "list[int:1, int:2, int:3], str:'encoding': dict{}}"],
                        ['return',
                         "dict{str:'__type__': str:'array', str:'dtype': str:'float32', "
                         "str:'data': float:1.5, str:'encoding': dict{}}"],
                        ['raise',
                         'IndexError',
                         'too many indices for array: array is 0-dimensional, but 1 were indexed',
                         'NoneType'],
                        ['return',
                         "dict{str:'__type__': str:'array', str:'dtype': str:'timedelta64[m]', "
                         "str:'data': int:5, str:'encoding': dict{str:'units': str:'m'}}"],
                        ['return',
                         "dict{str:'__type__': str:'array', str:'dtype': str:'datetime64[s]', "
                         "str:'data': list[int:0, int:86400], str:'encoding': "
                         "dict{str:'reference': str:'2019-01-01T00:00:00', str:'units': str:'s'}}"],
                        ['return',
                         "dict{str:'__type__': str:'array', str:'dtype': str:'timedelta64[s]', "
                         "str:'data': list[int:0, int:1, int:2, int:-5], str:'encoding': "
                         "dict{str:'units': str:'s'}}"],
                        ['return',
                         "dict{str:'__type__': str:'array', str:'dtype': str:'timedelta64[ms]', "
                         "str:'data': list[int:0, int:1, int:2, int:-5], str:'encoding': "
                         "dict{str:'units': str:'ms'}}"],
                        ['return',
                         "dict{str:'__type__': str:'array', str:'dtype': str:'timedelta64[us]', "
                         "str:'data': list[int:0, int:1, int:2, int:-5], str:'encoding': "
                         "dict{str:'units': str:'us'}}"],
                        ['return',
                         "dict{str:'__type__': str:'array', str:'dtype': str:'timedelta64[ns]', "
                         "str:'data': list[int:0, int:1, int:2, int:-5], str:'encoding': "
                         "dict{str:'units': str:'ns'}}"],
                        ['return',
                         "dict{str:'__type__': str:'array', str:'dtype': str:'timedelta64[m]', "
                         "str:'data': list[int:0, int:1, int:2, int:-5], str:'encoding': "
                         "dict{str:'units': str:'m'}}"],
                        ['return',
                         "dict{str:'__type__': str:'array', str:'dtype': str:'timedelta64[h]', "
                         "str:'data': list[int:0, int:1, int:2, int:-5], str:'encoding': "
                         "dict{str:'units': str:'h'}}"],
                        ['return',
                         "dict{str:'__type__': str:'array', str:'dtype': str:'timedelta64[D]', "
                         "str:'data': list[int:0, int:1, int:2, int:-5], str:'encoding': "
                         "dict{str:'units': str:'D'}}"],
                        ['return',
                         "dict{str:'__type__': str:'array', str:'dtype': str:'timedelta64[W]', "
                         "str:'data': list[int:0, int:1, int:2, int:-5], str:'encoding': "
                         "dict{str:'units': str:'W'}}"],
                        ['return',
                         "dict{str:'__type__': str:'array', str:'dtype': str:'timedelta64[M]', "
                         "str:'data': list[int:0, int:1, int:2, int:-5], str:'encoding': "
                         "dict{str:'units': str:'M'}}"],
                        ['return',
                         "dict{str:'__type__': str:'array', str:'dtype': str:'timedelta64[Y]', "
                         "str:'data': list[int:0, int:1, int:2, int:-5], str:'encoding': "
                         "dict{str:'units': str:'Y'}}"],
                        ['return',
                         "dict{str:'__type__': str:'array', str:'dtype': str:'timedelta64[10s]', "
                         "str:'data': list[int:0, int:1, int:2, int:-5], str:'encoding': "
                         "dict{str:'units': str:'s'}}"],
                        ['return',
                         "dict{str:'__type__': str:'array', str:'dtype': str:'timedelta64[25us]', "
                         "str:'data': list[int:0, int:1, int:2, int:-5], str:'encoding': "
                         "dict{str:'units': str:'us'}}"],
                        ['return',
                         "dict{str:'__type__': str:'array', str:'dtype': str:'timedelta64[ps]', "
                         "str:'data': list[int:0, int:1, int:2, int:-5], str:'encoding': "
                         "dict{str:'units': str:'ps'}}"],
                        ['return',
                         "dict{str:'__type__': str:'array', str:'dtype': str:'timedelta64[s]', "
                         "str:'data': list[], str:'encoding': dict{str:'units': str:'s'}}"],
                        ['return',
                         "dict{str:'__type__': str:'array', str:'dtype': str:'timedelta64[ms]', "
                         "str:'data': int:3, str:'encoding': dict{str:'units': str:'ms'}}"],
                        ['return',
                         "dict{str:'__type__': str:'array', str:'dtype': str:'timedelta64[s]', "
                         "str:'data': list[list[int:0, int:1], list[int:2, int:3]], "
                         "str:'encoding': dict{str:'units': str:'s'}}"],
                        ['return',
                         "dict{str:'__type__': str:'array', str:'dtype': str:'timedelta64[s]', "
                         "str:'data': list[int:1, int:-9223372036854775808, int:3], "
                         "str:'encoding': dict{str:'units': str:'s'}}"],
                        ['return',
                         "dict{str:'__type__': str:'array', str:'dtype': str:'timedelta64', "
                         "str:'data': list[int:1, int:2], str:'encoding': dict{str:'units': "
                         "str:'generic'}}"],
                        ['return',
                         "dict{str:'__type__': str:'array', str:'dtype': str:'datetime64[ms]', "
                         "str:'data': list[int:0, int:86460000], str:'encoding': "
                         "dict{str:'reference': str:'2019-01-01T00:01:00.000', str:'units': "
                         "str:'ms'}}"],
                        ['return',
                         "dict{str:'__type__': str:'array', str:'dtype': str:'datetime64[ns]', "
                         "str:'data': list[int:0], str:'encoding': dict{str:'reference': "
                         "str:'2019-01-01T00:00:00.000000000', str:'units': str:'ns'}}"],
                        ['return',
                         "dict{str:'__type__': str:'array', str:'dtype': str:'datetime64[s]', "
                         "str:'data': list[int:0, int:31536000], str:'encoding': "
                         "dict{str:'reference': str:'2019-01-01T00:00:00', str:'units': str:'s'}}"],
                        ['return',
                         "dict{str:'__type__': str:'array', str:'dtype': str:'datetime64[ns]', "
                         "str:'data': list[int:0, int:31536000000000000, int:63158400000000000, "
                         "int:94694400000000000], str:'encoding': dict{str:'reference': "
                         "str:'2019-01-01T00:00:00.000000000', str:'units': str:'ns'}}"],
                        ['return',
                         "dict{str:'__type__': str:'array', str:'dtype': str:'datetime64[D]', "
                         "str:'data': list[int:0, int:-365], str:'encoding': dict{str:'reference': "
                         "str:'2020-01-01', str:'units': str:'D'}}"],
                        ['return',
                         "dict{str:'__type__': str:'array', str:'dtype': str:'datetime64[M]', "
                         "str:'data': list[int:0, int:18], str:'encoding': dict{str:'reference': "
                         "str:'2020-01', str:'units': str:'M'}}"],
                        ['return',
                         "dict{str:'__type__': str:'array', str:'dtype': str:'datetime64[Y]', "
                         "str:'data': list[int:0, int:-51], str:'encoding': dict{str:'reference': "
                         "str:'2020', str:'units': str:'Y'}}"],
                        ['return',
                         "dict{str:'__type__': str:'array', str:'dtype': str:'datetime64[10s]', "
                         "str:'data': list[int:0, int:3], str:'encoding': dict{str:'reference': "
                         "str:'2019-01-01T00:00:00', str:'units': str:'10s'}}"],
                        ['return',
                         "dict{str:'__type__': str:'array', str:'dtype': str:'datetime64[250ms]', "
                         "str:'data': list[int:0, int:4], str:'encoding': dict{str:'reference': "
                         "str:'2019-01-01T00:00:00.000', str:'units': str:'250ms'}}"],
                        ['return',
                         "dict{str:'__type__': str:'array', str:'dtype': str:'datetime64[s]', "
                         "str:'data': list[int:0, int:-9223372036854775808, int:172800], "
                         "str:'encoding': dict{str:'reference': str:'2019-01-01T00:00:00', "
                         "str:'units': str:'s'}}"],
                        ['return',
                         "dict{str:'__type__': str:'array', str:'dtype': str:'datetime64[s]', "
                         "str:'data': list[int:-9223372036854775808, int:-9223372036854775808], "
                         "str:'encoding': dict{str:'reference': str:'NaT', str:'units': str:'s'}}"],
                        ['raise',
                         'IndexError',
                         'index 0 is out of bounds for axis 0 with size 0',
                         'NoneType'],
                        ['raise',
                         'IndexError',
                         'too many indices for array: array is 0-dimensional, but 1 were indexed',
                         'NoneType'],
                        ['return',
                         "dict{str:'__type__': str:'array', str:'dtype': str:'datetime64[D]', "
                         "str:'data': list[list[int:0, int:0], list[int:2, int:2]], "
                         'str:\'encoding\': dict{str:\'reference\': str:"[\'2019-01-01\' '
                         '\'2019-01-02\']", str:\'units\': str:\'D\'}}'],
                        ['return',
                         "dict{str:'__type__': str:'array', str:'dtype': str:'datetime64[us]', "
                         "str:'data': list[int:0, int:-86400000000], str:'encoding': "
                         "dict{str:'reference': str:'2019-01-02T00:00:00.000000', str:'units': "
                         "str:'us'}}"],
                        ['return',
                         "dict{str:'__type__': str:'backend_array', str:'root': str:'/path/to', "
                         "str:'url': str:'file', str:'shape': tuple[int:4, int:3], str:'dtype': "
                         "str:'int16', str:'byte_ranges': list[tuple[int:5, int:10], tuple[int:15, "
                         "int:20], tuple[int:25, int:30], tuple[int:35, int:40]], str:'type_code': "
                         "str:'IU2'}"],
                        ['return',
                         "dict{str:'__type__': str:'backend_array', str:'root': str:'/path/to', "
                         "str:'url': str:'file', str:'shape': tuple[int:0, int:3], str:'dtype': "
                         "str:'int16', str:'byte_ranges': list[], str:'type_code': str:'IU2'}"],
                        ['return',
                         "dict{str:'__type__': str:'backend_array', str:'root': str:'/other/root', "
                         "str:'url': str:'IMG-HH', str:'shape': tuple[int:2, int:5], str:'dtype': "
                         "str:'complex64', str:'byte_ranges': list[tuple[int:5, int:10], "
                         "tuple[int:15, int:20]], str:'type_code': str:'C*8'}"],
                        ['return',
                         "dict{str:'__type__': str:'backend_array', str:'root': str:'/path/to', "
                         "str:'url': str:'file', str:'shape': tuple[int:4, int:3], str:'dtype': "
                         "str:'int16', str:'byte_ranges': list[tuple[int:5, int:10], tuple[int:15, "
                         "int:20], tuple[int:25, int:30], tuple[int:35, int:40]], str:'type_code': "
                         "str:'IU2'}"]],
 'encode_group': [['raise',
                   'AttributeError',
                   "'numpy.ndarray' object has no attribute 'keys'",
                   'NoneType'],
                  ['raise',
                   'AttributeError',
                   "'numpy.ndarray' object has no attribute 'keys'",
                   'NoneType'],
                  ['raise',
                   'AttributeError',
                   "'numpy.ndarray' object has no attribute 'keys'",
                   'NoneType'],
                  ['raise',
                   'AttributeError',
                   "'numpy.ndarray' object has no attribute 'keys'",
                   'NoneType'],
                  ['raise', 'AttributeError', "'Array' object has no attribute 'keys'", 'NoneType'],
                  ['raise',
                   'AttributeError',
                   "'numpy.ndarray' object has no attribute 'keys'",
                   'NoneType'],
                  ['raise', 'AttributeError', "'list' object has no attribute 'keys'", 'NoneType'],
                  ['raise', 'AttributeError', "'list' object has no attribute 'keys'", 'NoneType'],
                  ['return',
                   "dict{str:'__type__': str:'group', str:'url': str:'s3://bucket/data', "
                   "str:'data': dict{}, str:'path': str:'/', str:'attrs': dict{}}"],
                  ['return',
                   "dict{str:'__type__': str:'group', str:'url': str:'memory:///x', str:'data': "
                   "dict{str:'v1': dict{str:'__type__': str:'variable', str:'dims': list[str:'x'], "
                   "str:'data': dict{str:'__type__': str:'array', str:'dtype': str:'int8', "
                   "str:'data': list[int:1, int:2, int:3], str:'encoding': dict{}}, str:'attrs': "
                   "dict{}}, str:'v5': dict{str:'__type__': str:'variable', str:'dims': "
                   "list[str:'rows', str:'cols'], str:'data': dict{str:'__type__': "
                   "str:'backend_array', str:'root': str:'/path/to', str:'url': str:'file', "
                   "str:'shape': tuple[int:4, int:3], str:'dtype': str:'int16', str:'byte_ranges': "
                   'list[tuple[int:5, int:10], tuple[int:15, int:20], tuple[int:25, int:30], '
                   "tuple[int:35, int:40]], str:'type_code': str:'IU2'}, str:'attrs': "
                   "dict{str:'n': int:1}}, str:'v3': dict{str:'__type__': str:'variable', "
                   "str:'dims': list[str:'t'], str:'data': dict{str:'__type__': str:'array', "
                   "str:'dtype': str:'datetime64[s]', str:'data': list[int:0, int:172800], "
                   "str:'encoding': dict{str:'reference': str:'2019-01-01T00:00:00', str:'units': "
                   "str:'s'}}, str:'attrs': dict{str:'u': str:'s'}}}, str:'path': str:'/', "
                   "str:'attrs': dict{str:'a': int:1, str:'b': tuple[int:1, int:2], str:'c': "
                   "dict{str:'d': list[int:1, tuple[int:2, int:3]]}}}"],
                  ['return',
                   "dict{str:'__type__': str:'group', str:'url': str:'file:///root', str:'data': "
                   "dict{str:'z': dict{str:'__type__': str:'variable', str:'dims': list[str:'x', "
                   "str:'y'], str:'data': dict{str:'__type__': str:'array', str:'dtype': "
                   "str:'float64', str:'data': list[list[float:0.0, float:1.0, float:2.0], "
                   "list[float:3.0, float:4.0, float:5.0]], str:'encoding': dict{}}, str:'attrs': "
                   "dict{str:'a': int:1, str:'b': tuple[int:1, int:2], str:'c': dict{str:'d': "
                   "list[int:1, tuple[int:2, int:3]]}}}, str:'sub': dict{str:'__type__': "
                   "str:'group', str:'url': str:'file:///root', str:'data': dict{str:'v4': "
                   "dict{str:'__type__': str:'variable', str:'dims': list[str:'dt'], str:'data': "
                   "dict{str:'__type__': str:'array', str:'dtype': str:'timedelta64[ms]', "
                   "str:'data': list[int:1, int:2], str:'encoding': dict{str:'units': str:'ms'}}, "
                   "str:'attrs': dict{}}, str:'leaf': dict{str:'__type__': str:'group', str:'url': "
                   "str:'s3://bucket/data', str:'data': dict{}, str:'path': str:'/sub/leaf', "
                   "str:'attrs': dict{}}}, str:'path': str:'/sub', str:'attrs': dict{str:'k': "
                   "str:'v'}}, str:'a': dict{str:'__type__': str:'variable', str:'dims': "
                   "list[str:'x'], str:'data': dict{str:'__type__': str:'array', str:'dtype': "
                   "str:'int8', str:'data': list[int:1, int:2, int:3], str:'encoding': dict{}}, "
                   "str:'attrs': dict{}}, str:'other': dict{str:'__type__': str:'group', "
                   "str:'url': str:'memory:///x', str:'data': dict{str:'v1': dict{str:'__type__': "
                   "str:'variable', str:'dims': list[str:'x'], str:'data': dict{str:'__type__': "
                   "str:'array', str:'dtype': str:'int8', str:'data': list[int:1, int:2, int:3], "
                   "str:'encoding': dict{}}, str:'attrs': dict{}}, str:'v5': dict{str:'__type__': "
                   "str:'variable', str:'dims': list[str:'rows', str:'cols'], str:'data': "
                   "dict{str:'__type__': str:'backend_array', str:'root': str:'/path/to', "
                   "str:'url': str:'file', str:'shape': tuple[int:4, int:3], str:'dtype': "
                   "str:'int16', str:'byte_ranges': list[tuple[int:5, int:10], tuple[int:15, "
                   "int:20], tuple[int:25, int:30], tuple[int:35, int:40]], str:'type_code': "
                   "str:'IU2'}, str:'attrs': dict{str:'n': int:1}}, str:'v3': dict{str:'__type__': "
                   "str:'variable', str:'dims': list[str:'t'], str:'data': dict{str:'__type__': "
                   "str:'array', str:'dtype': str:'datetime64[s]', str:'data': list[int:0, "
                   "int:172800], str:'encoding': dict{str:'reference': str:'2019-01-01T00:00:00', "
                   "str:'units': str:'s'}}, str:'attrs': dict{str:'u': str:'s'}}}, str:'path': "
                   "str:'/other', str:'attrs': dict{str:'a': int:1, str:'b': tuple[int:1, int:2], "
                   "str:'c': dict{str:'d': list[int:1, tuple[int:2, int:3]]}}}}, str:'path': "
                   "str:'/', str:'attrs': dict{}}"],
                  ['return',
                   "dict{str:'__type__': str:'group', str:'url': NoneType:None, str:'data': "
                   "dict{str:'v': dict{str:'__type__': str:'variable', str:'dims': list[], "
                   "str:'data': dict{str:'__type__': str:'array', str:'dtype': str:'int64', "
                   "str:'data': int:1, str:'encoding': dict{}}, str:'attrs': dict{}}}, str:'path': "
                   "str:'somewhere', str:'attrs': dict{}}"],
                  ['raise',
                   'ValueError',
                   'setting an array element with a sequence. The requested array has an '
                   'inhomogeneous shape after 1 dimensions. The detected shape was (2,) + '
                   'inhomogeneous part.',
                   'NoneType'],
                  ['raise', 'AttributeError', "'int' object has no attribute 'data'", 'NoneType'],
                  ['raise',
                   'AttributeError',
                   "'NoneType' object has no attribute 'data'",
                   'NoneType'],
                  ['raise', 'AttributeError', "'int' object has no attribute 'data'", 'NoneType'],
                  ['raise', 'AttributeError', "'str' object has no attribute 'data'", 'NoneType'],
                  ['raise', 'AttributeError', "'dict' object has no attribute 'data'", 'NoneType'],
                  ['raise', 'AttributeError', "'list' object has no attribute 'data'", 'NoneType'],
                  ['raise',
                   'AttributeError',
                   "'memoryview' object has no attribute 'keys'",
                   'NoneType'],
                  ['raise', 'AttributeError', "'Array' object has no attribute 'data'", 'NoneType'],
                  ['raise',
                   'AttributeError',
                   "'NoData' object has no attribute 'data'",
                   'NoneType'],
                  ['raise', 'AttributeError', "'NoUrl' object has no attribute 'url'", 'NoneType'],
                  ['raise',
                   'AttributeError',
                   "'object' object has no attribute 'data'",
                   'NoneType']],
 'encode_hierarchy': [['return',
                       "dict{str:'__type__': str:'variable', str:'dims': list[str:'x'], "
                       "str:'data': dict{str:'__type__': str:'array', str:'dtype': str:'int8', "
                       "str:'data': list[int:1, int:2, int:3], str:'encoding': dict{}}, "
                       "str:'attrs': dict{}}"],
                      ['return',
                       "dict{str:'__type__': str:'variable', str:'dims': list[str:'x', str:'y'], "
                       "str:'data': dict{str:'__type__': str:'array', str:'dtype': str:'float64', "
                       "str:'data': list[list[float:0.0, float:1.0, float:2.0], list[float:3.0, "
                       "float:4.0, float:5.0]], str:'encoding': dict{}}, str:'attrs': "
                       "dict{str:'a': int:1, str:'b': tuple[int:1, int:2], str:'c': dict{str:'d': "
                       'list[int:1, tuple[int:2, int:3]]}}}'],
                      ['return',
                       "dict{str:'__type__': str:'variable', str:'dims': list[str:'t'], "
                       "str:'data': dict{str:'__type__': str:'array', str:'dtype': "
                       "str:'datetime64[s]', str:'data': list[int:0, int:172800], str:'encoding': "
                       "dict{str:'reference': str:'2019-01-01T00:00:00', str:'units': str:'s'}}, "
                       "str:'attrs': dict{str:'u': str:'s'}}"],
                      ['return',
                       "dict{str:'__type__': str:'variable', str:'dims': list[str:'dt'], "
                       "str:'data': dict{str:'__type__': str:'array', str:'dtype': "
                       "str:'timedelta64[ms]', str:'data': list[int:1, int:2], str:'encoding': "
                       "dict{str:'units': str:'ms'}}, str:'attrs': dict{}}"],
                      ['return',
                       "dict{str:'__type__': str:'variable', str:'dims': list[str:'rows', "
                       "str:'cols'], str:'data': dict{str:'__type__': str:'backend_array', "
                       "str:'root': str:'/path/to', str:'url': str:'file', str:'shape': "
                       "tuple[int:4, int:3], str:'dtype': str:'int16', str:'byte_ranges': "
                       'list[tuple[int:5, int:10], tuple[int:15, int:20], tuple[int:25, int:30], '
                       "tuple[int:35, int:40]], str:'type_code': str:'IU2'}, str:'attrs': "
                       "dict{str:'n': int:1}}"],
                      ['return',
                       "dict{str:'__type__': str:'variable', str:'dims': list[], str:'data': "
                       "dict{str:'__type__': str:'array', str:'dtype': str:'int64', str:'data': "
                       "int:1, str:'encoding': dict{}}, str:'attrs': dict{}}"],
                      ['return',
                       "dict{str:'__type__': str:'variable', str:'dims': list[str:'x'], "
                       "str:'data': dict{str:'__type__': str:'array', str:'dtype': str:'int64', "
                       "str:'data': list[int:1, int:2, int:3], str:'encoding': dict{}}, "
                       "str:'attrs': dict{}}"],
                      ['raise',
                       'ValueError',
                       'setting an array element with a sequence. The requested array has an '
                       'inhomogeneous shape after 1 dimensions. The detected shape was (2,) + '
                       'inhomogeneous part.',
                       'NoneType'],
                      ['return',
                       "dict{str:'__type__': str:'group', str:'url': str:'s3://bucket/data', "
                       "str:'data': dict{}, str:'path': str:'/', str:'attrs': dict{}}"],
                      ['return',
                       "dict{str:'__type__': str:'group', str:'url': str:'memory:///x', "
                       "str:'data': dict{str:'v1': dict{str:'__type__': str:'variable', "
                       "str:'dims': list[str:'x'], str:'data': dict{str:'__type__': str:'array', "
                       "str:'dtype': str:'int8', str:'data': list[int:1, int:2, int:3], "
                       "str:'encoding': dict{}}, str:'attrs': dict{}}, str:'v5': "
                       "dict{str:'__type__': str:'variable', str:'dims': list[str:'rows', "
                       "str:'cols'], str:'data': dict{str:'__type__': str:'backend_array', "
                       "str:'root': str:'/path/to', str:'url': str:'file', str:'shape': "
                       "tuple[int:4, int:3], str:'dtype': str:'int16', str:'byte_ranges': "
                       'list[tuple[int:5, int:10], tuple[int:15, int:20], tuple[int:25, int:30], '
                       "tuple[int:35, int:40]], str:'type_code': str:'IU2'}, str:'attrs': "
                       "dict{str:'n': int:1}}, str:'v3': dict{str:'__type__': str:'variable', "
                       "str:'dims': list[str:'t'], str:'data': dict{str:'__type__': str:'array', "
                       "str:'dtype': str:'datetime64[s]', str:'data': list[int:0, int:172800], "
                       "str:'encoding': dict{str:'reference': str:'2019-01-01T00:00:00', "
                       "str:'units': str:'s'}}, str:'attrs': dict{str:'u': str:'s'}}}, str:'path': "
                       "str:'/', str:'attrs': dict{str:'a': int:1, str:'b': tuple[int:1, int:2], "
                       "str:'c': dict{str:'d': list[int:1, tuple[int:2, int:3]]}}}"],
                      ['return',
                       "dict{str:'__type__': str:'group', str:'url': str:'file:///root', "
                       "str:'data': dict{str:'z': dict{str:'__type__': str:'variable', str:'dims': "
                       "list[str:'x', str:'y'], str:'data': dict{str:'__type__': str:'array', "
                       "str:'dtype': str:'float64', str:'data': list[list[float:0.0, float:1.0, "
                       "float:2.0], list[float:3.0, float:4.0, float:5.0]], str:'encoding': "
                       "dict{}}, str:'attrs': dict{str:'a': int:1, str:'b': tuple[int:1, int:2], "
                       "str:'c': dict{str:'d': list[int:1, tuple[int:2, int:3]]}}}, str:'sub': "
                       "dict{str:'__type__': str:'group', str:'url': str:'file:///root', "
                       "str:'data': dict{str:'v4': dict{str:'__type__': str:'variable', "
                       "str:'dims': list[str:'dt'], str:'data': dict{str:'__type__': str:'array', "
                       "str:'dtype': str:'timedelta64[ms]', str:'data': list[int:1, int:2], "
                       "str:'encoding': dict{str:'units': str:'ms'}}, str:'attrs': dict{}}, "
                       "str:'leaf': dict{str:'__type__': str:'group', str:'url': "
                       "str:'s3://bucket/data', str:'data': dict{}, str:'path': str:'/sub/leaf', "
                       "str:'attrs': dict{}}}, str:'path': str:'/sub', str:'attrs': dict{str:'k': "
                       "str:'v'}}, str:'a': dict{str:'__type__': str:'variable', str:'dims': "
                       "list[str:'x'], str:'data': dict{str:'__type__': str:'array', str:'dtype': "
                       "str:'int8', str:'data': list[int:1, int:2, int:3], str:'encoding': "
                       "dict{}}, str:'attrs': dict{}}, str:'other': dict{str:'__type__': "
                       "str:'group', str:'url': str:'memory:///x', str:'data': dict{str:'v1': "
                       "dict{str:'__type__': str:'variable', str:'dims': list[str:'x'], "
                       "str:'data': dict{str:'__type__': str:'array', str:'dtype': str:'int8', "
                       "str:'data': list[int:1, int:2, int:3], str:'encoding': dict{}}, "
                       "str:'attrs': dict{}}, str:'v5': dict{str:'__type__': str:'variable', "
                       "str:'dims': list[str:'rows', str:'cols'], str:'data': dict{str:'__type__': "
                       "str:'backend_array', str:'root': str:'/path/to', str:'url': str:'file', "
                       "str:'shape': tuple[int:4, int:3], str:'dtype': str:'int16', "
                       "str:'byte_ranges': list[tuple[int:5, int:10], tuple[int:15, int:20], "
                       "tuple[int:25, int:30], tuple[int:35, int:40]], str:'type_code': "
                       "str:'IU2'}, str:'attrs': dict{str:'n': int:1}}, str:'v3': "
                       "dict{str:'__type__': str:'variable', str:'dims': list[str:'t'], "
                       "str:'data': dict{str:'__type__': str:'array', str:'dtype': "
                       "str:'datetime64[s]', str:'data': list[int:0, int:172800], str:'encoding': "
                       "dict{str:'reference': str:'2019-01-01T00:00:00', str:'units': str:'s'}}, "
                       "str:'attrs': dict{str:'u': str:'s'}}}, str:'path': str:'/other', "
                       "str:'attrs': dict{str:'a': int:1, str:'b': tuple[int:1, int:2], str:'c': "
                       "dict{str:'d': list[int:1, tuple[int:2, int:3]]}}}}, str:'path': str:'/', "
                       "str:'attrs': dict{}}"],
                      ['return',
                       "dict{str:'__type__': str:'group', str:'url': NoneType:None, str:'data': "
                       "dict{str:'v': dict{str:'__type__': str:'variable', str:'dims': list[], "
                       "str:'data': dict{str:'__type__': str:'array', str:'dtype': str:'int64', "
                       "str:'data': int:1, str:'encoding': dict{}}, str:'attrs': dict{}}}, "
                       "str:'path': str:'somewhere', str:'attrs': dict{}}"],
                      ['raise',
                       'ValueError',
                       'setting an array element with a sequence. The requested array has an '
                       'inhomogeneous shape after 1 dimensions. The detected shape was (2,) + '
                       'inhomogeneous part.',
                       'NoneType'],
                      ['raise',
                       'AttributeError',
                       "'int' object has no attribute 'data'",
                       'NoneType'],
                      ['return', 'NoneType:None'],
                      ['return', 'int:1'],
                      ['return', "str:'text'"],
                      ['return', "dict{str:'__type__': str:'group'}"],
                      ['return',
                       "list[Variable:Variable(dims=['x'], data=array([1, 2, 3], dtype=int8), "
                       'attrs={})]'],
                      ['return', 'ndarray:array([1, 2])'],
                      ['return',
                       "Array:Array(url='file', shape=(4, 3), dtype='int16', records_per_chunk=2)"],
                      ['return', 'NoData:<__main__.NoData object at 0x...>'],
                      ['return', 'NoUrl:<__main__.NoUrl object at 0x...>'],
                      ['return', 'object:<object object at 0x...>']],
 'encode_variable': [['return',
                      "dict{str:'__type__': str:'variable', str:'dims': list[str:'x'], str:'data': "
                      "dict{str:'__type__': str:'array', str:'dtype': str:'int8', str:'data': "
                      "list[int:1, int:2, int:3], str:'encoding': dict{}}, str:'attrs': dict{}}"],
                     ['return',
                      "dict{str:'__type__': str:'variable', str:'dims': list[str:'x', str:'y'], "
                      "str:'data': dict{str:'__type__': str:'array', str:'dtype': str:'float64', "
                      "str:'data': list[list[float:0.0, float:1.0, float:2.0], list[float:3.0, "
                      "float:4.0, float:5.0]], str:'encoding': dict{}}, str:'attrs': dict{str:'a': "
                      "int:1, str:'b': tuple[int:1, int:2], str:'c': dict{str:'d': list[int:1, "
                      'tuple[int:2, int:3]]}}}'],
                     ['return',
                      "dict{str:'__type__': str:'variable', str:'dims': list[str:'t'], str:'data': "
                      "dict{str:'__type__': str:'array', str:'dtype': str:'datetime64[s]', "
                      "str:'data': list[int:0, int:172800], str:'encoding': dict{str:'reference': "
                      "str:'2019-01-01T00:00:00', str:'units': str:'s'}}, str:'attrs': "
                      "dict{str:'u': str:'s'}}"],
                     ['return',
                      "dict{str:'__type__': str:'variable', str:'dims': list[str:'dt'], "
                      "str:'data': dict{str:'__type__': str:'array', str:'dtype': "
                      "str:'timedelta64[ms]', str:'data': list[int:1, int:2], str:'encoding': "
                      "dict{str:'units': str:'ms'}}, str:'attrs': dict{}}"],
                     ['return',
                      "dict{str:'__type__': str:'variable', str:'dims': list[str:'rows', "
                      "str:'cols'], str:'data': dict{str:'__type__': str:'backend_array', "
                      "str:'root': str:'/path/to', str:'url': str:'file', str:'shape': "
                      "tuple[int:4, int:3], str:'dtype': str:'int16', str:'byte_ranges': "
                      'list[tuple[int:5, int:10], tuple[int:15, int:20], tuple[int:25, int:30], '
                      "tuple[int:35, int:40]], str:'type_code': str:'IU2'}, str:'attrs': "
                      "dict{str:'n': int:1}}"],
                     ['return',
                      "dict{str:'__type__': str:'variable', str:'dims': list[], str:'data': "
                      "dict{str:'__type__': str:'array', str:'dtype': str:'int64', str:'data': "
                      "int:1, str:'encoding': dict{}}, str:'attrs': dict{}}"],
                     ['return',
                      "dict{str:'__type__': str:'variable', str:'dims': list[str:'x'], str:'data': "
                      "dict{str:'__type__': str:'array', str:'dtype': str:'int64', str:'data': "
                      "list[int:1, int:2, int:3], str:'encoding': dict{}}, str:'attrs': dict{}}"],
                     ['raise',
                      'ValueError',
                      'setting an array element with a sequence. The requested array has an '
                      'inhomogeneous shape after 1 dimensions. The detected shape was (2,) + '
                      'inhomogeneous part.',
                      'NoneType'],
                     ['raise',
                      'AttributeError',
                      "'Group' object has no attribute 'dims'",
                      'NoneType'],
                     ['raise',
                      'AttributeError',
                      "'Group' object has no attribute 'dims'",
                      'NoneType'],
                     ['raise',
                      'AttributeError',
                      "'Group' object has no attribute 'dims'",
                      'NoneType'],
                     ['raise',
                      'AttributeError',
                      "'Group' object has no attribute 'dims'",
                      'NoneType'],
                     ['raise',
                      'AttributeError',
                      "'Group' object has no attribute 'dims'",
                      'NoneType'],
                     ['raise',
                      'AttributeError',
                      "'Group' object has no attribute 'dims'",
                      'NoneType'],
                     ['raise',
                      'AttributeError',
                      "'NoneType' object has no attribute 'data'",
                      'NoneType'],
                     ['raise',
                      'AttributeError',
                      "'int' object has no attribute 'data'",
                      'NoneType'],
                     ['raise',
                      'AttributeError',
                      "'str' object has no attribute 'data'",
                      'NoneType'],
                     ['raise',
                      'AttributeError',
                      "'dict' object has no attribute 'data'",
                      'NoneType'],
                     ['raise',
                      'AttributeError',
                      "'list' object has no attribute 'data'",
                      'NoneType'],
                     ['raise',
                      'AttributeError',
                      "'numpy.ndarray' object has no attribute 'dims'",
                      'NoneType'],
                     ['raise',
                      'AttributeError',
                      "'Array' object has no attribute 'data'",
                      'NoneType'],
                     ['raise',
                      'AttributeError',
                      "'NoData' object has no attribute 'data'",
                      'NoneType'],
                     ['raise',
                      'AttributeError',
                      "'NoUrl' object has no attribute 'dims'",
                      'NoneType'],
                     ['raise',
                      'AttributeError',
                      "'object' object has no attribute 'data'",
                      'NoneType']],
 'identities': [True,
                True,
                True,
                True,
                True,
                True,
                True,
                True,
                True,
                "dict{str:'__type__': str:'array', str:'dtype': str:'int64', str:'data': "
                "list[int:1, int:2], str:'encoding': dict{}}",
                True,
                True],
 'json': [['return',
           'str:\'{"__type__": "variable", "dims": ["x"], "data": {"__type__": "array", "dtype": '
           '"int8", "data": [1, 2, 3], "encoding": {}}, "attrs": {}}\''],
          ['return',
           'str:\'{"__type__": "variable", "dims": ["x", "y"], "data": {"__type__": "array", '
           '"dtype": "float64", "data": [[0.0, 1.0, 2.0], [3.0, 4.0, 5.0]], "encoding": {}}, '
           '"attrs": {"a": 1, "b": {"__type__": "tuple", "data": [1, 2]}, "c": {"d": [1, '
           '{"__type__": "tuple", "data": [2, 3]}]}}}\''],
          ['return',
           'str:\'{"__type__": "variable", "dims": ["t"], "data": {"__type__": "array", "dtype": '
           '"datetime64[s]", "data": [0, 172800], "encoding": {"reference": "2019-01-01T00:00:00", '
           '"units": "s"}}, "attrs": {"u": "s"}}\''],
          ['return',
           'str:\'{"__type__": "variable", "dims": ["dt"], "data": {"__type__": "array", "dtype": '
           '"timedelta64[ms]", "data": [1, 2], "encoding": {"units": "ms"}}, "attrs": {}}\''],
          ['return',
           'str:\'{"__type__": "variable", "dims": ["rows", "cols"], "data": {"__type__": '
           '"backend_array", "root": "/path/to", "url": "file", "shape": {"__type__": "tuple", '
           '"data": [4, 3]}, "dtype": "int16", "byte_ranges": [{"__type__": "tuple", "data": [5, '
           '10]}, {"__type__": "tuple", "data": [15, 20]}, {"__type__": "tuple", "data": [25, '
           '30]}, {"__type__": "tuple", "data": [35, 40]}], "type_code": "IU2"}, "attrs": {"n": '
           "1}}'"],
          ['return',
           'str:\'{"__type__": "variable", "dims": [], "data": {"__type__": "array", "dtype": '
           '"int64", "data": 1, "encoding": {}}, "attrs": {}}\''],
          ['return',
           'str:\'{"__type__": "variable", "dims": ["x"], "data": {"__type__": "array", "dtype": '
           '"int64", "data": [1, 2, 3], "encoding": {}}, "attrs": {}}\''],
          ['raise',
           'ValueError',
           'setting an array element with a sequence. The requested array has an inhomogeneous '
           'shape after 1 dimensions. The detected shape was (2,) + inhomogeneous part.',
           'NoneType'],
          ['return',
           'str:\'{"__type__": "group", "url": "s3://bucket/data", "data": {}, "path": "/", '
           '"attrs": {}}\''],
          ['return',
           'str:\'{"__type__": "group", "url": "memory:///x", "data": {"v1": {"__type__": '
           '"variable", "dims": ["x"], "data": {"__type__": "array", "dtype": "int8", "data": [1, '
           '2, 3], "encoding": {}}, "attrs": {}}, "v5": {"__type__": "variable", "dims": ["rows", '
           '"cols"], "data": {"__type__": "backend_array", "root": "/path/to", "url": "file", '
           '"shape": {"__type__": "tuple", "data": [4, 3]}, "dtype": "int16", "byte_ranges": '
           '[{"__type__": "tuple", "data": [5, 10]}, {"__type__": "tuple", "data": [15, 20]}, '
           '{"__type__": "tuple", "data": [25, 30]}, {"__type__": "tuple", "data": [35, 40]}], '
           '"type_code": "IU2"}, "attrs": {"n": 1}}, "v3": {"__type__": "variable", "dims": ["t"], '
           '"data": {"__type__": "array", "dtype": "datetime64[s]", "data": [0, 172800], '
           '"encoding": {"reference": "2019-01-01T00:00:00", "units": "s"}}, "attrs": {"u": '
           '"s"}}}, "path": "/", "attrs": {"a": 1, "b": {"__type__": "tuple", "data": [1, 2]}, '
           '"c": {"d": [1, {"__type__": "tuple", "data": [2, 3]}]}}}\''],
          ['return',
           'str:\'{"__type__": "group", "url": "file:///root", "data": {"z": {"__type__": '
           '"variable", "dims": ["x", "y"], "data": {"__type__": "array", "dtype": "float64", '
           '"data": [[0.0, 1.0, 2.0], [3.0, 4.0, 5.0]], "encoding": {}}, "attrs": {"a": 1, "b": '
           '{"__type__": "tuple", "data": [1, 2]}, "c": {"d": [1, {"__type__": "tuple", "data": '
           '[2, 3]}]}}}, "sub": {"__type__": "group", "url": "file:///root", "data": {"v4": '
           '{"__type__": "variable", "dims": ["dt"], "data": {"__type__": "array", "dtype": '
           '"timedelta64[ms]", "data": [1, 2], "encoding": {"units": "ms"}}, "attrs": {}}, "leaf": '
           '{"__type__": "group", "url": "s3://bucket/data", "data": {}, "path": "/sub/leaf", '
           '"attrs": {}}}, "path": "/sub", "attrs": {"k": "v"}}, "a": {"__type__": "variable", '
           '"dims": ["x"], "data": {"__type__": "array", "dtype": "int8", "data": [1, 2, 3], '
           '"encoding": {}}, "attrs": {}}, "other": {"__type__": "group", "url": "memory:///x", '
           '"data": {"v1": {"__type__": "variable", "dims": ["x"], "data": {"__type__": "array", '
           '"dtype": "int8", "data": [1, 2, 3], "encoding": {}}, "attrs": {}}, "v5": {"__type__": '
           '"variable", "dims": ["rows", "cols"], "data": {"__type__": "backend_array", "root": '
           '"/path/to", "url": "file", "shape": {"__type__": "tuple", "data": [4, 3]}, "dtype": '
           '"int16", "byte_ranges": [{"__type__": "tuple", "data": [5, 10]}, {"__type__": "tuple", '
           '"data": [15, 20]}, {"__type__": "tuple", "data": [25, 30]}, {"__type__": "tuple", '
           '"data": [35, 40]}], "type_code": "IU2"}, "attrs": {"n": 1}}, "v3": {"__type__": '
           '"variable", "dims": ["t"], "data": {"__type__": "array", "dtype": "datetime64[s]", '
           '"data": [0, 172800], "encoding": {"reference": "2019-01-01T00:00:00", "units": "s"}}, '
           '"attrs": {"u": "s"}}}, "path": "/other", "attrs": {"a": 1, "b": {"__type__": "tuple", '
           '"data": [1, 2]}, "c": {"d": [1, {"__type__": "tuple", "data": [2, 3]}]}}}}, "path": '
           '"/", "attrs": {}}\''],
          ['return',
           'str:\'{"__type__": "group", "url": null, "data": {"v": {"__type__": "variable", '
           '"dims": [], "data": {"__type__": "array", "dtype": "int64", "data": 1, "encoding": '
           '{}}, "attrs": {}}}, "path": "somewhere", "attrs": {}}\''],
          ['raise',
           'ValueError',
           'setting an array element with a sequence. The requested array has an inhomogeneous '
           'shape after 1 dimensions. The detected shape was (2,) + inhomogeneous part.',
           'NoneType'],
          ['raise', 'AttributeError', "'int' object has no attribute 'data'", 'NoneType'],
          ['return', "str:'null'"],
          ['return', "str:'1'"],
          ['return', 'str:\'"text"\''],
          ['return', 'str:\'{"__type__": "group"}\''],
          ['raise', 'TypeError', 'Object of type Variable is not JSON serializable', 'NoneType'],
          ['raise', 'TypeError', 'Object of type ndarray is not JSON serializable', 'NoneType'],
          ['raise', 'TypeError', 'Object of type Array is not JSON serializable', 'NoneType'],
          ['raise', 'TypeError', 'Object of type NoData is not JSON serializable', 'NoneType'],
          ['raise', 'TypeError', 'Object of type NoUrl is not JSON serializable', 'NoneType'],
          ['raise', 'TypeError', 'Object of type object is not JSON serializable', 'NoneType']],
 'preprocess': [['return',
                 "dict{str:'__type__': str:'variable', str:'dims': list[str:'x'], str:'data': "
                 "dict{str:'__type__': str:'array', str:'dtype': str:'int8', str:'data': "
                 "list[int:1, int:2, int:3], str:'encoding': dict{}}, str:'attrs': dict{}}"],
                ['return',
                 "dict{str:'__type__': str:'variable', str:'dims': list[str:'x', str:'y'], "
                 "str:'data': dict{str:'__type__': str:'array', str:'dtype': str:'float64', "
                 "str:'data': list[list[float:0.0, float:1.0, float:2.0], list[float:3.0, "
                 "float:4.0, float:5.0]], str:'encoding': dict{}}, str:'attrs': dict{str:'a': "
                 "int:1, str:'b': dict{str:'__type__': str:'tuple', str:'data': list[int:1, "
                 "int:2]}, str:'c': dict{str:'d': list[int:1, dict{str:'__type__': str:'tuple', "
                 "str:'data': list[int:2, int:3]}]}}}"],
                ['return',
                 "dict{str:'__type__': str:'variable', str:'dims': list[str:'t'], str:'data': "
                 "dict{str:'__type__': str:'array', str:'dtype': str:'datetime64[s]', str:'data': "
                 "list[int:0, int:172800], str:'encoding': dict{str:'reference': "
                 "str:'2019-01-01T00:00:00', str:'units': str:'s'}}, str:'attrs': dict{str:'u': "
                 "str:'s'}}"],
                ['return',
                 "dict{str:'__type__': str:'variable', str:'dims': list[str:'dt'], str:'data': "
                 "dict{str:'__type__': str:'array', str:'dtype': str:'timedelta64[ms]', "
                 "str:'data': list[int:1, int:2], str:'encoding': dict{str:'units': str:'ms'}}, "
                 "str:'attrs': dict{}}"],
                ['return',
                 "dict{str:'__type__': str:'variable', str:'dims': list[str:'rows', str:'cols'], "
                 "str:'data': dict{str:'__type__': str:'backend_array', str:'root': "
                 "str:'/path/to', str:'url': str:'file', str:'shape': dict{str:'__type__': "
                 "str:'tuple', str:'data': list[int:4, int:3]}, str:'dtype': str:'int16', "
                 "str:'byte_ranges': list[dict{str:'__type__': str:'tuple', str:'data': "
                 "list[int:5, int:10]}, dict{str:'__type__': str:'tuple', str:'data': list[int:15, "
                 "int:20]}, dict{str:'__type__': str:'tuple', str:'data': list[int:25, int:30]}, "
                 "dict{str:'__type__': str:'tuple', str:'data': list[int:35, int:40]}], "
                 "str:'type_code': str:'IU2'}, str:'attrs': dict{str:'n': int:1}}"],
                ['return',
                 "dict{str:'__type__': str:'variable', str:'dims': list[], str:'data': "
                 "dict{str:'__type__': str:'array', str:'dtype': str:'int64', str:'data': int:1, "
                 "str:'encoding': dict{}}, str:'attrs': dict{}}"],
                ['return',
                 "dict{str:'__type__': str:'variable', str:'dims': list[str:'x'], str:'data': "
                 "dict{str:'__type__': str:'array', str:'dtype': str:'int64', str:'data': "
                 "list[int:1, int:2, int:3], str:'encoding': dict{}}, str:'attrs': dict{}}"],
                ['raise',
                 'ValueError',
                 'setting an array element with a sequence. The requested array has an '
                 'inhomogeneous shape after 1 dimensions. The detected shape was (2,) + '
                 'inhomogeneous part.',
                 'NoneType'],
                ['return',
                 "dict{str:'__type__': str:'group', str:'url': str:'s3://bucket/data', str:'data': "
                 "dict{}, str:'path': str:'/', str:'attrs': dict{}}"],
                ['return',
                 "dict{str:'__type__': str:'group', str:'url': str:'memory:///x', str:'data': "
                 "dict{str:'v1': dict{str:'__type__': str:'variable', str:'dims': list[str:'x'], "
                 "str:'data': dict{str:'__type__': str:'array', str:'dtype': str:'int8', "
                 "str:'data': list[int:1, int:2, int:3], str:'encoding': dict{}}, str:'attrs': "
                 "dict{}}, str:'v5': dict{str:'__type__': str:'variable', str:'dims': "
                 "list[str:'rows', str:'cols'], str:'data': dict{str:'__type__': "
                 "str:'backend_array', str:'root': str:'/path/to', str:'url': str:'file', "
                 "str:'shape': dict{str:'__type__': str:'tuple', str:'data': list[int:4, int:3]}, "
                 "str:'dtype': str:'int16', str:'byte_ranges': list[dict{str:'__type__': "
                 "str:'tuple', str:'data': list[int:5, int:10]}, dict{str:'__type__': str:'tuple', "
                 "str:'data': list[int:15, int:20]}, dict{str:'__type__': str:'tuple', str:'data': "
                 "list[int:25, int:30]}, dict{str:'__type__': str:'tuple', str:'data': "
                 "list[int:35, int:40]}], str:'type_code': str:'IU2'}, str:'attrs': dict{str:'n': "
                 "int:1}}, str:'v3': dict{str:'__type__': str:'variable', str:'dims': "
                 "list[str:'t'], str:'data': dict{str:'__type__': str:'array', str:'dtype': "
                 "str:'datetime64[s]', str:'data': list[int:0, int:172800], str:'encoding': "
                 "dict{str:'reference': str:'2019-01-01T00:00:00', str:'units': str:'s'}}, "
                 "str:'attrs': dict{str:'u': str:'s'}}}, str:'path': str:'/', str:'attrs': "
                 "dict{str:'a': int:1, str:'b': dict{str:'__type__': str:'tuple', str:'data': "
                 "list[int:1, int:2]}, str:'c': dict{str:'d': list[int:1, dict{str:'__type__': "
                 "str:'tuple', str:'data': list[int:2, int:3]}]}}}"],
                ['return',
                 "dict{str:'__type__': str:'group', str:'url': str:'file:///root', str:'data': "
                 "dict{str:'z': dict{str:'__type__': str:'variable', str:'dims': list[str:'x', "
                 "str:'y'], str:'data': dict{str:'__type__': str:'array', str:'dtype': "
                 "str:'float64', str:'data': list[list[float:0.0, float:1.0, float:2.0], "
                 "list[float:3.0, float:4.0, float:5.0]], str:'encoding': dict{}}, str:'attrs': "
                 "dict{str:'a': int:1, str:'b': dict{str:'__type__': str:'tuple', str:'data': "
                 "list[int:1, int:2]}, str:'c': dict{str:'d': list[int:1, dict{str:'__type__': "
                 "str:'tuple', str:'data': list[int:2, int:3]}]}}}, str:'sub': "
                 "dict{str:'__type__': str:'group', str:'url': str:'file:///root', str:'data': "
                 "dict{str:'v4': dict{str:'__type__': str:'variable', str:'dims': list[str:'dt'], "
                 "str:'data': dict{str:'__type__': str:'array', str:'dtype': "
                 "str:'timedelta64[ms]', str:'data': list[int:1, int:2], str:'encoding': "
                 "dict{str:'units': str:'ms'}}, str:'attrs': dict{}}, str:'leaf': "
                 "dict{str:'__type__': str:'group', str:'url': str:'s3://bucket/data', str:'data': "
                 "dict{}, str:'path': str:'/sub/leaf', str:'attrs': dict{}}}, str:'path': "
                 "str:'/sub', str:'attrs': dict{str:'k': str:'v'}}, str:'a': dict{str:'__type__': "
                 "str:'variable', str:'dims': list[str:'x'], str:'data': dict{str:'__type__': "
                 "str:'array', str:'dtype': str:'int8', str:'data': list[int:1, int:2, int:3], "
                 "str:'encoding': dict{}}, str:'attrs': dict{}}, str:'other': dict{str:'__type__': "
                 "str:'group', str:'url': str:'memory:///x', str:'data': dict{str:'v1': "
                 "dict{str:'__type__': str:'variable', str:'dims': list[str:'x'], str:'data': "
                 "dict{str:'__type__': str:'array', str:'dtype': str:'int8', str:'data': "
                 "list[int:1, int:2, int:3], str:'encoding': dict{}}, str:'attrs': dict{}}, "
                 "str:'v5': dict{str:'__type__': str:'variable', str:'dims': list[str:'rows', "
                 "str:'cols'], str:'data': dict{str:'__type__': str:'backend_array', str:'root': "
                 "str:'/path/to', str:'url': str:'file', str:'shape': dict{str:'__type__': "
                 "str:'tuple', str:'data': list[int:4, int:3]}, str:'dtype': str:'int16', "
                 "str:'byte_ranges': list[dict{str:'__type__': str:'tuple', str:'data': "
                 "list[int:5, int:10]}, dict{str:'__type__': str:'tuple', str:'data': list[int:15, "
                 "int:20]}, dict{str:'__type__': str:'tuple', str:'data': list[int:25, int:30]}, "
                 "dict{str:'__type__': str:'tuple', str:'data': list[int:35, int:40]}], "
                 "str:'type_code': str:'IU2'}, str:'attrs': dict{str:'n': int:1}}, str:'v3': "
                 "dict{str:'__type__': str:'variable', str:'dims': list[str:'t'], str:'data': "
                 "dict{str:'__type__': str:'array', str:'dtype': str:'datetime64[s]', str:'data': "
                 "list[int:0, int:172800], str:'encoding': dict{str:'reference': "
                 "str:'2019-01-01T00:00:00', str:'units': str:'s'}}, str:'attrs': dict{str:'u': "
                 "str:'s'}}}, str:'path': str:'/other', str:'attrs': dict{str:'a': int:1, str:'b': "
                 "dict{str:'__type__': str:'tuple', str:'data': list[int:1, int:2]}, str:'c': "
                 "dict{str:'d': list[int:1, dict{str:'__type__': str:'tuple', str:'data': "
                 "list[int:2, int:3]}]}}}}, str:'path': str:'/', str:'attrs': dict{}}"],
                ['return',
                 "dict{str:'__type__': str:'group', str:'url': NoneType:None, str:'data': "
                 "dict{str:'v': dict{str:'__type__': str:'variable', str:'dims': list[], "
                 "str:'data': dict{str:'__type__': str:'array', str:'dtype': str:'int64', "
                 "str:'data': int:1, str:'encoding': dict{}}, str:'attrs': dict{}}}, str:'path': "
                 "str:'somewhere', str:'attrs': dict{}}"],
                ['raise',
                 'ValueError',
                 'setting an array element with a sequence. The requested array has an '
                 'inhomogeneous shape after 1 dimensions. The detected shape was (2,) + '
                 'inhomogeneous part.',
                 'NoneType'],
                ['raise', 'AttributeError', "'int' object has no attribute 'data'", 'NoneType'],
                ['return', 'NoneType:None'],
                ['return', 'int:1'],
                ['return', "str:'text'"],
                ['return', "dict{str:'__type__': str:'group'}"],
                ['return',
                 "list[Variable:Variable(dims=['x'], data=array([1, 2, 3], dtype=int8), "
                 'attrs={})]'],
                ['return', 'ndarray:array([1, 2])'],
                ['return',
                 "Array:Array(url='file', shape=(4, 3), dtype='int16', records_per_chunk=2)"],
                ['return', 'NoData:<__main__.NoData object at 0x...>'],
                ['return', 'NoUrl:<__main__.NoUrl object at 0x...>'],
                ['return', 'object:<object object at 0x...>']],
 'replaced': [['return',
               "dict{str:'__type__': str:'array', str:'dtype': str:'datetime64[s]', str:'data': "
               "str:'datetime', str:'encoding': dict{str:'replaced': int:1}}"],
              ['return',
               "dict{str:'__type__': str:'array', str:'dtype': str:'timedelta64[s]', str:'data': "
               "str:'timedelta', str:'encoding': dict{str:'replaced': int:2}}"],
              ['return',
               "dict{str:'__type__': str:'array', str:'dtype': str:'int8', str:'data': "
               "list[int:1], str:'encoding': dict{}}"]]}


if __name__ == "__main__":
    observed = run()
    if "--record" in sys.argv:
        import pprint

        pprint.pprint(observed, width=100, sort_dicts=True)
        raise SystemExit(0)

    assert EXPECTED is not None
    assert sorted(observed) == sorted(EXPECTED)
    failures = 0
    for key in sorted(EXPECTED):
        expected, actual = EXPECTED[key], observed[key]
        assert len(expected) == len(actual), key
        for index, (e, a) in enumerate(zip(expected, actual)):
            if e != a:
                failures += 1
                print(f"MISMATCH {key}[{index}]:\n  expected {e!r}\n  actual   {a!r}")
    n = sum(len(v) for v in observed.values())
    if failures:
        raise SystemExit(f"{failures} of {n} observations differ")
    print(f"OK: {n} observations identical to the recorded ones ({encoders.__file__})")
