"""Equivalence checks for refactoring 4 (ceos_alos2/hierarchy.py).

Run as: cd /tmp/wt9/e73 && PYTHONPATH=/tmp/wt9/e73 /venv/bin/python _eq/4/equiv.py
All expectations were recorded from the unchanged code (HEAD).
"""

import copy
import warnings

import numpy as np
from fsspec.implementations.dirfs import DirFileSystem
from fsspec.implementations.memory import MemoryFileSystem

from ceos_alos2 import hierarchy
from ceos_alos2.array import Array
from ceos_alos2.hierarchy import Group, Variable

warnings.simplefilter("error")


def outcome(func, *args, **kwargs):
    try:
        res = func(*args, **kwargs)
        return ("ok", f"{type(res).__module__}.{type(res).__qualname__}", res)
    except BaseException as e:  # noqa: B036
        cause = None if e.__cause__ is None else repr(e.__cause__)
        return ("raise", type(e).__name__, str(e), cause, e.__suppress_context__)


def eq(a, b):
    return outcome(lambda: a == b)


def ne(a, b):
    return outcome(lambda: a != b)


FS = DirFileSystem(path="/path/to", fs=MemoryFileSystem())


def backend(**kwargs):
    params = dict(fs=FS, url="file", byte_ranges=[(5, 10), (15, 20)], shape=(2, 3), dtype="int16",
                  type_code="IU2", records_per_chunk=2)
    return Array(**(params | kwargs))


# ------------------------------------------------------------ Variable.__eq__
ints = np.array([1, 2], dtype="int8")
v = Variable("x", ints, {"a": 1})
assert v.dims == ["x"]
TRUE = ("ok", "builtins.bool", True)
FALSE = ("ok", "builtins.bool", False)
NP_TRUE = ("ok", "numpy.bool", True)
NP_FALSE = ("ok", "numpy.bool", False)

assert eq(v, Variable(["x"], np.array([1, 2], dtype="int8"), {"a": 1})) == NP_TRUE
assert eq(v, Variable(["x"], np.array([1, 2], dtype="int64"), {"a": 1})) == NP_TRUE
assert eq(v, Variable(["x"], np.array([1, 3], dtype="int8"), {"a": 1})) == NP_FALSE
assert eq(v, Variable(["y"], ints, {"a": 1})) == FALSE
assert eq(v, Variable(("x",), ints, {"a": 1})) == FALSE
assert eq(v, Variable(["x"], [1, 2], {"a": 1})) == FALSE
assert eq(v, Variable(["x"], ints, {"a": 2})) == FALSE
assert eq(v, Variable(["x"], ints, {})) == FALSE
assert ne(v, Variable(["x"], ints, {"a": 2})) == TRUE
assert ne(v, Variable(["x"], ints, {"a": 1})) == FALSE
for other in (1, None, "x", ints, {"dims": ["x"]}, Group(path=None, url=None, data={}, attrs={})):
    assert eq(v, other) == FALSE, other
    assert ne(v, other) == TRUE, other
# lists as data: all() over the python comparison
assert eq(Variable("x", [1, 2], {}), Variable("x", [1, 2], {})) == NP_TRUE
assert eq(Variable("x", [1, 2], {}), Variable("x", [1, 3], {})) == NP_FALSE
assert eq(Variable("x", 1, {}), Variable("x", 1, {})) == NP_TRUE
assert eq(Variable("x", 1, {}), Variable("x", 1.0, {})) == FALSE
# empty and 2d data
assert eq(Variable("x", np.array([]), {}), Variable("x", np.array([]), {})) == NP_TRUE
assert eq(Variable(["x", "y"], np.zeros((2, 2)), {}), Variable(["x", "y"], np.zeros((2, 2)), {})) == NP_TRUE
assert eq(Variable(["x", "y"], np.zeros((2, 2)), {}), Variable(["x", "y"], np.zeros((2, 1)), {})) == NP_TRUE  # broadcasts
# shape mismatch that does not broadcast
res = eq(Variable("x", np.array([1, 2]), {}), Variable("x", np.array([1, 2, 3]), {}))
assert res == (
    "raise", "ValueError",
    "operands could not be broadcast together with shapes (2,) (3,) ", None, False,
), res
# nan never compares equal
assert eq(Variable("x", np.array([np.nan]), {}), Variable("x", np.array([np.nan]), {})) == NP_FALSE
# backend arrays
a1 = Variable(["r", "c"], backend(), {})
assert eq(a1, Variable(["r", "c"], backend(), {})) == TRUE
assert eq(a1, Variable(["r", "c"], backend(url="other"), {})) == FALSE
assert eq(a1, Variable(["r", "c"], backend(records_per_chunk=1), {})) == FALSE
assert eq(a1, Variable(["r", "c"], np.zeros((2, 3), dtype="int16"), {})) == FALSE
assert eq(Variable(["r", "c"], np.zeros((2, 3), dtype="int16"), {}), a1) == FALSE
assert eq(a1, Variable(["r", "c"], backend(), {"a": 1})) == FALSE
# the checks short-circuit in the order dims, type of data, attrs, data
ambiguous = {"a": np.array([1, 2])}
assert eq(Variable("x", ints, ambiguous), Variable("y", ints, {"a": np.array([1, 2])})) == FALSE
assert eq(Variable("x", ints, ambiguous), Variable("x", [1, 2], {"a": np.array([1, 2])})) == FALSE
res = eq(Variable("x", ints, ambiguous), Variable("x", ints, {"a": np.array([1, 2])}))
assert res == (
    "raise", "ValueError",
    "The truth value of an array with more than one element is ambiguous. Use a.any() or a.all()", None, False,
), res
assert eq(Variable("x", ints, ambiguous), Variable("x", ints, ambiguous)) == NP_TRUE  # identical values
res = eq(Variable(np.array(["x", "y"]), ints, {}), Variable(np.array(["x", "z"]), ints, {}))
assert res[:2] == ("raise", "ValueError"), res
# hashing is unchanged (generated from the fields, so unhashable with list dims)
res = outcome(hash, v)
assert res == ("raise", "TypeError", "unhashable type: 'list'", None, False), res

# ------------------------------------------------------------ Group construction
sub2 = Group(path="anything", url="u2", data={"deep": Variable("z", [1], {})}, attrs={"lvl": 2})
sub1 = Group(path=None, url=None, data={"s": sub2, "w": v}, attrs={"lvl": 1})
plain = {"k": 1}
root = Group(path=None, url="memory://root", data={"v": v, "g": sub1, "p": plain}, attrs={"lvl": 0})
assert root.path == "/" and root.url == "memory://root"
assert list(root) == ["v", "g", "p"] and len(root) == 3
assert root["g"].path == "/g" and root["g"].url == "memory://root"
assert root["g"]["s"].path == "/g/s" and root["g"]["s"].url == "u2"
# the given objects are copied (shallow) and left alone
assert root["g"] is not sub1 and root["g"]["s"] is not sub2 and root["v"] is not v and root["p"] is not plain
assert root["v"] == v and root["v"].data is v.data and root["p"] == plain
assert sub1.path == "/" and sub1.url is None and sub2.path == "anything"
assert sub1.data["s"] is not sub2 and sub1.data["s"].path == "/s"
assert root["g"].attrs is sub1.attrs and root["g"]["s"]["deep"].data == [1]
assert type(root["g"]) is Group

rel = Group(path="a/b", url=None, data={"c": Group(path=None, url=None, data={}, attrs={})}, attrs={})
assert rel.path == "a/b" and rel["c"].path == "a/b/c" and rel["c"].url is None
assert rel.name == "b" and rel["c"].name == "c" and root.name == "/" and root["g"]["s"].name == "s"
assert Group(path="single", url=None, data={}, attrs={}).name == "single"
absolute = Group(path="/x", url="u", data={}, attrs={})
absolute["/abs"] = Group(path=None, url=None, data={}, attrs={})
assert absolute["/abs"].path == "/abs" and absolute["/abs"].url == "u"


class SubGroup(Group):
    pass


sg = Group(path="/", url="u", data={"s": SubGroup(path=None, url=None, data={}, attrs={})}, attrs={})
assert type(sg["s"]) is SubGroup and sg["s"].path == "/s" and sg["s"].url == "u"

res = outcome(Group, path="/", url=None, data={1: Group(path=None, url=None, data={}, attrs={})}, attrs={})
assert res == (
    "raise", "TypeError", "join() argument must be str, bytes, or os.PathLike object, not 'int'", None, True,
), res
res = outcome(Group, path="/", url=None, data=[1], attrs={})
assert res == ("raise", "AttributeError", "'list' object has no attribute 'items'", None, False), res


# url is only filled in after the path was joined: a failing join leaves the copy's url untouched
class Recording(Group):
    events = []

    def __setattr__(self, name, value):
        if name in ("path", "url", "data"):
            Recording.events.append((name, value if name != "data" else sorted(value)))
        super().__setattr__(name, value)


child = Recording(path=None, url=None, data={"q": Recording(path=None, url="keep", data={}, attrs={})}, attrs={})
del Recording.events[:]
parent = Group(path="/top", url="U", data={"c": child}, attrs={})
assert Recording.events == [
    ("path", "/top/c"), ("url", "U"), ("path", "/top/c/q"), ("data", []), ("data", ["q"]),
], Recording.events

# __setitem__
target = Group(path="/t", url="tu", data={}, attrs={})
new = Group(path=None, url=None, data={"n": Group(path=None, url=None, data={}, attrs={})}, attrs={})
target["new"] = new
target["var"] = v
assert target["new"] is not new and target["new"].path == "/t/new" and target["new"].url == "tu"
assert target["new"]["n"].path == "/t/new/n" and target["new"]["n"].url == "tu"
assert new.path == "/" and new["n"].path == "/n"
assert target["var"] == v and target["var"] is not v
assert list(target) == ["new", "var"]

# groups / variables / decouple / subtree
assert list(root.groups) == ["g"] and list(root.variables) == ["v"]
assert root.groups["g"] is root["g"] and root.variables["v"] is root["v"]
assert type(root.groups) is dict and type(root.variables) is dict
assert list(root["g"].groups) == ["s"] and list(root["g"].variables) == ["w"]
assert Group(path=None, url=None, data={}, attrs={}).groups == {}
dec = root.decouple()
assert list(dec) == ["v"] and dec.path == "/" and dec.url == "memory://root" and dec.attrs is root.attrs
tree = list(root.subtree)
assert [p for p, _ in tree] == ["/", "/g", "/g/s"]
assert [list(g) for _, g in tree] == [["v"], ["w"], ["deep"]]
assert [g.attrs for _, g in tree] == [{"lvl": 0}, {"lvl": 1}, {"lvl": 2}]

# ------------------------------------------------------------ Group.__eq__


def make(path=None, url="u", attrs=None, variables=None, groups=None, order="vg", extra=None):
    variables = {"a": Variable("x", np.array([1, 2]), {}), "b": Variable("y", [1.5], {"u": 1})} | (variables or {})
    groups = {"g": Group(path=None, url=None, data={"c": Variable("z", [0], {})}, attrs={"n": 1})} | (groups or {})
    data = (variables | groups) if order == "vg" else (groups | variables)
    data |= extra or {}
    return Group(path=path, url=url, data=data, attrs={"t": 1} if attrs is None else attrs)


base = make()
assert eq(base, make()) == TRUE and ne(base, make()) == FALSE
assert eq(base, base) == TRUE
assert eq(base, copy.deepcopy(base)) == TRUE
assert eq(base, make(order="gv")) == TRUE  # interleaving of groups and variables does not matter
assert eq(base, make(path="/other")) == FALSE
assert eq(base, make(url="other")) == FALSE
assert eq(base, make(url=None)) == FALSE
assert eq(base, make(attrs={})) == FALSE
assert eq(base, make(attrs={"t": 2})) == FALSE
assert eq(base, make(variables={"c": Variable("x", [1], {})})) == FALSE
assert eq(make(variables={"c": Variable("x", [1], {})}), base) == FALSE
assert eq(base, make(groups={"h": Group(path=None, url=None, data={}, attrs={})})) == FALSE
assert eq(make(groups={"h": Group(path=None, url=None, data={}, attrs={})}), base) == FALSE
assert eq(base, make(variables={"a": Variable("x", np.array([1, 3]), {})})) == FALSE
assert eq(base, make(variables={"b": Variable("y", [1.5], {"u": 2})})) == FALSE
assert eq(base, make(variables={"b": Variable("y", [2.5], {"u": 1})})) == FALSE
assert eq(base, make(groups={"g": Group(path=None, url=None, data={"c": Variable("z", [1], {})}, attrs={"n": 1})})) == FALSE
assert eq(base, make(groups={"g": Group(path=None, url=None, data={"c": Variable("z", [0], {})}, attrs={"n": 2})})) == FALSE
assert eq(base, make(groups={"g": Group(path=None, url="x", data={"c": Variable("z", [0], {})}, attrs={"n": 1})})) == FALSE
assert eq(base, make(groups={"g": Group(path=None, url=None, data={}, attrs={"n": 1})})) == FALSE
# the order of the names matters
reordered = Group(path=None, url="u", data={"b": base["b"], "a": base["a"], "g": base["g"]}, attrs={"t": 1})
assert eq(base, reordered) == FALSE
# a variable in one, a group of the same name in the other
assert eq(base, make(variables={"g2": Variable("x", [1], {})})) == FALSE
swapped = Group(path=None, url="u", data={"a": base["a"], "b": base["b"], "g": Variable("x", [1], {})}, attrs={"t": 1})
assert eq(base, swapped) == FALSE and eq(swapped, base) == FALSE
# entries that are neither groups nor variables are ignored
assert eq(base, make(extra={"p": {"k": 1}})) == TRUE
assert eq(make(extra={"p": {"k": 1}}), make(extra={"p": {"k": 2}})) == TRUE
for other in (1, None, "x", {"a": 1}, dict(base), base["a"]):
    assert eq(base, other) == FALSE and ne(base, other) == TRUE
empty = Group(path=None, url=None, data={}, attrs={})
assert eq(empty, Group(path="/", url=None, data={}, attrs={})) == TRUE
assert eq(empty, base) == FALSE

# errors from the comparison of members propagate, cheaper checks come first
amb1 = make(variables={"a": Variable("x", np.array([1, 2]), {"arr": np.array([1, 2])})})
amb2 = make(variables={"a": Variable("x", np.array([1, 2]), {"arr": np.array([1, 2])})})
res = eq(amb1, amb2)
assert res[:2] == ("raise", "ValueError") and "ambiguous" in res[2], res
assert eq(amb1, make(path="/else", variables=dict(amb2.variables))) == FALSE
assert eq(amb1, make(attrs={}, variables=dict(amb2.variables))) == FALSE
# members are compared in order and the comparison stops at the first difference
log = []


class Noisy(Variable):
    def __eq__(self, other):
        log.append(self.attrs["id"])
        return super().__eq__(other)

    __hash__ = None


def noisy(values):
    data = {f"n{i}": Noisy("x", [value], {"id": i}) for i, value in enumerate(values)}
    data["grp"] = Group(path=None, url=None, data={"inner": Noisy("x", [values[-1]], {"id": "inner"})}, attrs={})
    return Group(path=None, url=None, data=data, attrs={})


del log[:]
assert eq(noisy([1, 2, 3]), noisy([1, 2, 3])) == TRUE and log == [0, 1, 2, "inner"], log
del log[:]
assert eq(noisy([1, 2, 3]), noisy([1, 5, 3])) == FALSE and log == [0, 1], log
del log[:]
g1, g2 = noisy([1, 2, 3]), noisy([1, 2, 3])
g2["grp"] = Group(path=None, url=None, data={"inner": Noisy("x", [9], {"id": "inner"})}, attrs={})
assert eq(g1, g2) == FALSE and log == [0, 1, 2, "inner"], log

assert {"Group", "Variable", "Array", "valfilter", "copy", "posixpath", "np"} <= set(dir(hierarchy))
print("equiv 4: OK")
