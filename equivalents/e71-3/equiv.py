"""Equivalence check for refactoring 3: ``ceos_alos2.sar_image.metadata.transform_metadata``.

Run as::

    cd /tmp/wt9/e71 && PYTHONPATH=/tmp/wt9/e71 /venv/bin/python _eq/3/equiv.py

(or through pytest). ``EXPECTED`` was recorded from the unchanged code with
``python _eq/3/equiv.py --record``; the script has to pass with and without the patch.
"""

import copy
import datetime
import hashlib
import io
import pprint
import struct
import sys

import numpy as np

import ceos_alos2.sar_image.io as sio
import ceos_alos2.sar_image.metadata as md
from ceos_alos2.array import Array
from ceos_alos2.hierarchy import Group, Variable


# --------------------------------------------------------------------------- helpers
def describe_exception(exc):
    if exc is None:
        return None
    return {
        "type": f"{type(exc).__module__}.{type(exc).__qualname__}",
        "message": str(exc),
        "args": repr(exc.args),
        "cause": describe_exception(exc.__cause__),
        "context": describe_exception(exc.__context__),
        "suppress_context": exc.__suppress_context__,
    }


def canon(obj):
    if isinstance(obj, Group):
        return {
            "Group": {
                "path": obj.path,
                "url": obj.url,
                "attrs": canon(obj.attrs),
                "data": [(name, canon(value)) for name, value in obj.data.items()],
            }
        }
    if isinstance(obj, Variable):
        return {"Variable": [canon(obj.dims), canon(obj.data), canon(obj.attrs)]}
    if isinstance(obj, Array):
        return {"Array": repr(obj)}
    if isinstance(obj, np.ndarray):
        return {"ndarray": [str(obj.dtype), list(obj.shape), [str(v) for v in obj.ravel()]]}
    if isinstance(obj, np.generic):
        return {"npscalar": [type(obj).__name__, str(obj)]}
    if isinstance(obj, dict):
        return {"dict": [(canon(k), canon(v)) for k, v in obj.items()]}
    if isinstance(obj, (list, tuple)):
        return {type(obj).__name__: [canon(v) for v in obj]}
    if isinstance(obj, (datetime.datetime, float, int, str, bytes, bool, type(None))):
        return f"{type(obj).__name__}:{obj!r}"
    return f"?{type(obj).__name__}:{obj!r}"


def compact(value, limit=400):
    text = repr(value)
    if len(text) <= limit:
        return text
    return f"sha256:{hashlib.sha256(text.encode()).hexdigest()} len={len(text)}"


def outcome(header, metadata, *, materialize=None):
    """call transform_metadata on private copies and describe everything observable"""
    header_in = copy.deepcopy(header)
    metadata_in = copy.deepcopy(metadata)
    if materialize is not None:
        metadata_in = materialize(metadata_in)
    try:
        result = md.transform_metadata(header_in, metadata_in)
    except BaseException as e:  # noqa: B902
        out = {"raised": compact(describe_exception(e), limit=1500)}
    else:
        group, array_metadata = result
        out = {
            "result_type": type(result).__name__,
            "group": compact(canon(group)),
            "array_metadata": compact(canon(array_metadata), limit=600),
            "array_metadata_keys": list(array_metadata),
        }
    # the inputs are left alone
    out["header_untouched"] = header_in == header
    if materialize is None:
        out["metadata_untouched"] = metadata_in == metadata
    return out


def make_record(kind, seq, length, *, line=1, year=2020, day=170, ms=1234):
    prefix = {10: 544, 11: 192}[kind]
    buf = bytearray(max(length, prefix))
    buf[0:4] = struct.pack(">I", seq)
    buf[4] = 50
    buf[5] = kind
    buf[6] = 18
    buf[7] = 20
    buf[8:12] = struct.pack(">I", length)
    buf[12:16] = struct.pack(">I", line)
    buf[16:20] = struct.pack(">I", 1)
    buf[36:48] = struct.pack(">III", year, day, ms + seq)
    buf[48:50] = struct.pack(">H", 2)
    buf[52:56] = struct.pack(">HH", 0, 1)
    buf[56:60] = struct.pack(">I", 2_000_000 + seq)
    buf[60:64] = struct.pack(">I", 3)
    if kind == 10:
        buf[84:92] = struct.pack(">Q", 1_000_000 * seq + 17)
        buf[284:288] = struct.pack(">I", 700)
    else:
        buf[64:68] = struct.pack(">I", 750_000 + seq)
    for index in range(prefix, len(buf)):
        buf[index] = (index * 7 + seq) % 251
    return bytes(buf)


def make_descriptor(n_records, record_length, *, type_code, lines, groups, max_range="", bursts=""):
    buf = bytearray(b" " * 720)
    buf[0:12] = struct.pack(">IBBBBI", 1, 50, 192, 18, 18, 720)

    def put(offset, width, value):
        buf[offset : offset + width] = str(value).rjust(width).encode()

    put(180, 6, n_records)
    put(186, 6, record_length)
    put(232, 4, 1)
    put(236, 8, lines)
    put(248, 8, groups)
    buf[268:272] = b"BSQ "
    buf[428:432] = type_code.ljust(4).encode()
    put(440, 8, max_range)
    put(448, 4, bursts)
    put(452, 4, bursts)
    put(456, 4, bursts)
    return bytes(buf)


def parsed_image(kind, n, record_length, **kwargs):
    type_code = kwargs.pop("type_code", {10: "C*8", 11: "IU2"}[kind])
    content = make_descriptor(
        n, record_length, type_code=type_code, lines=n, groups=4, **kwargs
    ) + b"".join(make_record(kind, i + 1, record_length, line=i + 1) for i in range(n))
    return sio.read_metadata(io.BytesIO(content), records_per_chunk=2)


def header(type_code="IU2", lines=2, groups=4, **extra):
    return {
        "prefix_suffix_data_locators": {"sar_data_format_type_code": type_code} | extra,
        "sar_related_data_in_the_record": {
            "number_of_lines_per_dataset": lines,
            "number_of_data_groups_per_line": groups,
        },
    }


class Patched:
    def __init__(self, target, name, value):
        self.target, self.name, self.value = target, name, value

    def __enter__(self):
        self.old = getattr(self.target, self.name)
        setattr(self.target, self.name, self.value)

    def __exit__(self, *exc_info):
        setattr(self.target, self.name, self.old)
        return False


# --------------------------------------------------------------------------- cases
def run():
    results = {}
    two = [{"data": {"start": 1, "stop": 5}}, {"data": {"start": 6, "stop": 10}}]
    lines = [
        {"scan_id": 1, "sar_image_data_line_number": 1, "data": {"start": 5, "stop": 21}},
        {"scan_id": 1, "sar_image_data_line_number": 2, "data": {"start": 25, "stop": 41}},
    ]

    # the cases of the test-suite
    results["suite-1"] = outcome(header("IU2", 2, 4), two)
    results["suite-2"] = outcome(header("C*8", 6, 3), two)
    results["suite-3"] = outcome(header("F*4", 6, 3), [])
    results["suite-4"] = outcome(header("C*8", 6, 3), lines)

    # real headers and records
    for name, args in {
        "real-signal": (10, 5, 576),
        "real-processed": (11, 4, 200),
        "real-processed-1": (11, 1, 200),
    }.items():
        results[name] = outcome(*parsed_image(*args))
    results["real-valid-range"] = outcome(*parsed_image(11, 3, 200, max_range=4095))
    results["real-valid-range-zero"] = outcome(*parsed_image(11, 3, 200, max_range=0))
    results["real-bursts"] = outcome(*parsed_image(10, 3, 576, bursts=7))
    results["real-bursts-zero"] = outcome(*parsed_image(10, 3, 576, bursts=0))
    results["real-unknown-code"] = outcome(*parsed_image(11, 3, 200, type_code="F*4"))
    results["real-blank-code"] = outcome(*parsed_image(11, 3, 200, type_code=""))
    results["real-lowercase-code"] = outcome(*parsed_image(11, 3, 200, type_code="iu2"))
    results["real-no-records"] = outcome(*parsed_image(11, 0, 200))

    # header attributes end up in the group attributes
    results["header-attrs"] = outcome(
        header("IU2", maximum_data_range_of_pixel=255, number_of_burst_data=-1)
        | {"preamble": {"record_type": 192}, "interleaving_id": "BSQ", "unknown": 1},
        lines,
    )
    results["header-attrs-nan"] = outcome(
        header("IU2", maximum_data_range_of_pixel=float("nan")) | {"interleaving_id": ""}, lines
    )
    results["header-attrs-bad-value"] = outcome(
        header("IU2", maximum_data_range_of_pixel="x"), lines
    )
    results["header-attrs-bad-value-unknown-code"] = outcome(
        header("XXX", maximum_data_range_of_pixel="x"), lines
    )

    # type codes
    for code in ("IU2", "C*8", "F*4", "", "IU2 ", "c*8", None, 0, 1.5, ("C*8",), b"IU2"):
        results[f"code-{code!r}"] = outcome(header(code), two)
    results["code-unhashable-list"] = outcome(header(["IU2"]), two)
    results["code-unhashable-dict"] = outcome(header({"a": 1}), two)
    results["code-with-braces"] = outcome(header("{0}{x}%s"), two)

    # which error wins
    broken = [{"data": {"start": 1, "stop": 5}}, {"no_data": 1}]
    results["order-data-before-code"] = outcome(header("F*4"), broken)
    results["order-data-before-locators"] = outcome({}, broken)
    results["order-start-before-stop"] = outcome(header("F*4"), [{"data": {}}])
    results["order-stop-missing"] = outcome(header("F*4"), [{"data": {"start": 1}}])
    results["order-locators-before-shape"] = outcome({}, two)
    results["order-code-key-before-shape"] = outcome(
        {"prefix_suffix_data_locators": {}, "sar_related_data_in_the_record": {}}, two
    )
    results["order-shape-before-code-check"] = outcome(
        {"prefix_suffix_data_locators": {"sar_data_format_type_code": "F*4"}}, two
    )
    results["order-shape-lines-first"] = outcome(
        {
            "prefix_suffix_data_locators": {"sar_data_format_type_code": "F*4"},
            "sar_related_data_in_the_record": {},
        },
        two,
    )
    results["order-shape-groups-missing"] = outcome(
        {
            "prefix_suffix_data_locators": {"sar_data_format_type_code": "F*4"},
            "sar_related_data_in_the_record": {"number_of_lines_per_dataset": 1},
        },
        two,
    )
    results["order-code-before-line-metadata"] = outcome(header("F*4"), [{"data": {"start": 1, "stop": 2}}, 5])
    results["order-line-metadata-error"] = outcome(header("IU2"), [{"data": {"start": 1, "stop": 2}, "a": 1}, {"data": {"start": 1, "stop": 2}, "a": (1, 2, 3)}])
    results["header-none"] = outcome(None, two)
    results["metadata-none"] = outcome(header("IU2"), None)
    results["metadata-not-records"] = outcome(header("IU2"), [1, 2])
    results["metadata-data-not-mapping"] = outcome(header("IU2"), [{"data": [1, 2]}])

    # shapes of the inputs
    results["metadata-empty"] = outcome(header("IU2"), [])
    results["metadata-tuple"] = outcome(header("IU2"), tuple(lines))
    results["metadata-generator"] = outcome(header("IU2"), lines, materialize=iter)
    results["metadata-generator-unknown-code"] = outcome(header("F*4"), lines, materialize=iter)
    results["metadata-dict-of-records"] = outcome(header("IU2"), {0: lines[0], 1: lines[1]})
    results["ranges-not-int"] = outcome(
        header("C*8"), [{"data": {"start": "a", "stop": None, "size": 3}}, {"data": {"start": 1.5, "stop": (1,)}}]
    )
    results["shape-not-int"] = outcome(header("C*8", lines=None, groups="x"), two)
    results["varying-attr"] = outcome(
        header("C*8"),
        [
            {"scan_id": 1, "prf": (5, {"units": "mHz"}), "data": {"start": 0, "stop": 1}},
            {"scan_id": 2, "prf": (6, {"units": "mHz"}), "data": {"start": 1, "stop": 2}},
        ],
    )
    results["dates"] = outcome(
        header("C*8"),
        [
            {"sensor_acquisition_date": datetime.datetime(2020, 10, 1, 12), "data": {"start": 0, "stop": 1}},
            {"sensor_acquisition_date": datetime.datetime(2020, 10, 2, 12), "data": {"start": 1, "stop": 2}},
        ],
    )
    results["coordinates-attr-in-header"] = outcome(
        header("C*8") | {"coordinates": "x", "interleaving_id": "BIP"}, lines
    )

    # the dtype table is a module global that is consulted at call time
    with Patched(md, "dtypes", {"F*4": np.dtype("float32"), "IU2": None, "S": "text", "I": np.int8}):
        for code in ("F*4", "IU2", "C*8", "S", "I"):
            results[f"table-{code}"] = outcome(header(code), two)
    with Patched(md, "dtypes", {}):
        results["table-empty"] = outcome(header("IU2"), two)
    with Patched(md, "dtypes", None):
        results["table-none"] = outcome(header("IU2"), two)
        results["table-none-shape-first"] = outcome(
            {"prefix_suffix_data_locators": {"sar_data_format_type_code": "IU2"}}, two
        )

    # ... and so are the extraction helpers
    calls = []

    def spy(name, func):
        def wrapper(*args, **kwargs):
            calls.append(name)
            return func(*args, **kwargs)

        return wrapper

    def failing(name, exc):
        def wrapper(*args, **kwargs):
            calls.append(name)
            raise exc

        return wrapper

    names = [
        "extract_format_type",
        "extract_shape",
        "extract_attrs",
        "transform_line_metadata",
    ]
    originals = {name: getattr(md, name) for name in names}
    try:
        for name in names:
            setattr(md, name, spy(name, originals[name]))
        results["call-order-ok"] = outcome(header("IU2"), lines)
        results["call-order-ok-calls"] = list(calls)
        calls.clear()
        results["call-order-unknown-code"] = outcome(header("F*4"), lines)
        results["call-order-unknown-code-calls"] = list(calls)
        calls.clear()
        results["call-order-bad-record"] = outcome(header("F*4"), [{}])
        results["call-order-bad-record-calls"] = list(calls)
        calls.clear()
        for name in names:
            setattr(md, name, failing(name, RuntimeError(name)))
            results[f"call-order-{name}-fails"] = outcome(header("F*4"), lines)
            results[f"call-order-{name}-fails-calls"] = list(calls)
            calls.clear()
            results[f"call-order-{name}-fails-known-code"] = outcome(header("IU2"), lines)
            results[f"call-order-{name}-fails-known-code-calls"] = list(calls)
            calls.clear()
            setattr(md, name, spy(name, originals[name]))
    finally:
        for name in names:
            setattr(md, name, originals[name])

    # identity / type details of the result
    group, array_metadata = md.transform_metadata(header("C*8", 6, 3), copy.deepcopy(lines))
    results["types"] = {
        "group": type(group).__name__,
        "attrs": type(group.attrs).__name__,
        "attrs_order": list(group.attrs),
        "coordinates": type(group.attrs["coordinates"]).__name__,
        "dtype": type(array_metadata["dtype"]).__name__,
        "shape": type(array_metadata["shape"]).__name__,
        "byte_ranges": type(array_metadata["byte_ranges"]).__name__,
        "byte_range": sorted({type(r).__name__ for r in array_metadata["byte_ranges"]}),
        "array_metadata": type(array_metadata).__name__,
    }
    results["module-dtypes"] = {k: [type(v).__name__, str(v)] for k, v in md.dtypes.items()}
    results["public-names"] = sorted(
        name
        for name in (
            "extract_format_type",
            "extract_shape",
            "extract_attrs",
            "apply_overrides",
            "deduplicate_attrs",
            "transform_line_metadata",
            "transform_metadata",
            "dtypes",
            "np",
            "math",
            "pipe",
            "curry",
        )
        if hasattr(md, name)
    )
    return results


EXPECTED = None  # filled in below by --record


def test_equivalence():
    assert md.__file__.startswith("/tmp/wt9/e71/"), md.__file__
    actual = run()
    assert sorted(actual) == sorted(EXPECTED)
    for name in EXPECTED:
        assert actual[name] == EXPECTED[name], (
            f"{name}:\n{pprint.pformat(actual[name])}\n!=\n{pprint.pformat(EXPECTED[name])}"
        )


# EXPECTED-BEGIN
EXPECTED = {'call-order-bad-record': {'header_untouched': True,
                           'metadata_untouched': True,
                           'raised': '{\'type\': \'builtins.KeyError\', \'message\': "\'data\'", '
                                     '\'args\': "(\'data\',)", \'cause\': None, \'context\': None, '
                                     "'suppress_context': False}"},
 'call-order-bad-record-calls': [],
 'call-order-extract_attrs-fails': {'header_untouched': True,
                                    'metadata_untouched': True,
                                    'raised': "{'type': 'builtins.ValueError', 'message': 'unknown "
                                              'type code: F*4\', \'args\': "(\'unknown type code: '
                                              'F*4\',)", \'cause\': None, \'context\': None, '
                                              "'suppress_context': False}"},
 'call-order-extract_attrs-fails-calls': ['extract_format_type', 'extract_shape'],
 'call-order-extract_attrs-fails-known-code': {'header_untouched': True,
                                               'metadata_untouched': True,
                                               'raised': "{'type': 'builtins.RuntimeError', "
                                                         "'message': 'extract_attrs', 'args': "
                                                         '"(\'extract_attrs\',)", \'cause\': None, '
                                                         "'context': None, 'suppress_context': "
                                                         'False}'},
 'call-order-extract_attrs-fails-known-code-calls': ['extract_format_type',
                                                     'extract_shape',
                                                     'extract_attrs'],
 'call-order-extract_format_type-fails': {'header_untouched': True,
                                          'metadata_untouched': True,
                                          'raised': "{'type': 'builtins.RuntimeError', 'message': "
                                                    "'extract_format_type', 'args': "
                                                    '"(\'extract_format_type\',)", \'cause\': '
                                                    "None, 'context': None, 'suppress_context': "
                                                    'False}'},
 'call-order-extract_format_type-fails-calls': ['extract_format_type'],
 'call-order-extract_format_type-fails-known-code': {'header_untouched': True,
                                                     'metadata_untouched': True,
                                                     'raised': "{'type': 'builtins.RuntimeError', "
                                                               "'message': 'extract_format_type', "
                                                               "'args': "
                                                               '"(\'extract_format_type\',)", '
                                                               "'cause': None, 'context': None, "
                                                               "'suppress_context': False}"},
 'call-order-extract_format_type-fails-known-code-calls': ['extract_format_type'],
 'call-order-extract_shape-fails': {'header_untouched': True,
                                    'metadata_untouched': True,
                                    'raised': "{'type': 'builtins.RuntimeError', 'message': "
                                              "'extract_shape', 'args': "
                                              '"(\'extract_shape\',)", \'cause\': None, '
                                              "'context': None, 'suppress_context': False}"},
 'call-order-extract_shape-fails-calls': ['extract_format_type', 'extract_shape'],
 'call-order-extract_shape-fails-known-code': {'header_untouched': True,
                                               'metadata_untouched': True,
                                               'raised': "{'type': 'builtins.RuntimeError', "
                                                         "'message': 'extract_shape', 'args': "
                                                         '"(\'extract_shape\',)", \'cause\': None, '
                                                         "'context': None, 'suppress_context': "
                                                         'False}'},
 'call-order-extract_shape-fails-known-code-calls': ['extract_format_type', 'extract_shape'],
 'call-order-ok': {'array_metadata': '{\'dict\': [("str:\'type_code\'", "str:\'IU2\'"), '
                                     '("str:\'shape\'", {\'tuple\': [\'int:2\', \'int:4\']}), '
                                     '("str:\'dtype\'", "str:\'uint16\'"), ("str:\'byte_ranges\'", '
                                     "{'list': [{'tuple': ['int:5', 'int:21']}, {'tuple': "
                                     "['int:25', 'int:41']}]})]}",
                   'array_metadata_keys': ['type_code', 'shape', 'dtype', 'byte_ranges'],
                   'group': "{'Group': {'path': '/', 'url': None, 'attrs': {'dict': "
                            '[("str:\'scan_id\'", \'int:1\'), ("str:\'coordinates\'", {\'list\': '
                            '["str:\'rows\'"]})]}, \'data\': [(\'rows\', {\'Variable\': '
                            '[{\'list\': ["str:\'rows\'"]}, {\'list\': [\'int:1\', \'int:2\']}, '
                            "{'dict': []}]})]}}",
                   'header_untouched': True,
                   'metadata_untouched': True,
                   'result_type': 'tuple'},
 'call-order-ok-calls': ['extract_format_type',
                         'extract_shape',
                         'extract_attrs',
                         'transform_line_metadata'],
 'call-order-transform_line_metadata-fails': {'header_untouched': True,
                                              'metadata_untouched': True,
                                              'raised': "{'type': 'builtins.ValueError', "
                                                        "'message': 'unknown type code: F*4', "
                                                        '\'args\': "(\'unknown type code: '
                                                        'F*4\',)", \'cause\': None, \'context\': '
                                                        "None, 'suppress_context': False}"},
 'call-order-transform_line_metadata-fails-calls': ['extract_format_type', 'extract_shape'],
 'call-order-transform_line_metadata-fails-known-code': {'header_untouched': True,
                                                         'metadata_untouched': True,
                                                         'raised': "{'type': "
                                                                   "'builtins.RuntimeError', "
                                                                   "'message': "
                                                                   "'transform_line_metadata', "
                                                                   "'args': "
                                                                   '"(\'transform_line_metadata\',)", '
                                                                   "'cause': None, 'context': "
                                                                   "None, 'suppress_context': "
                                                                   'False}'},
 'call-order-transform_line_metadata-fails-known-code-calls': ['extract_format_type',
                                                               'extract_shape',
                                                               'extract_attrs',
                                                               'transform_line_metadata'],
 'call-order-unknown-code': {'header_untouched': True,
                             'metadata_untouched': True,
                             'raised': "{'type': 'builtins.ValueError', 'message': 'unknown type "
                                       'code: F*4\', \'args\': "(\'unknown type code: F*4\',)", '
                                       "'cause': None, 'context': None, 'suppress_context': "
                                       'False}'},
 'call-order-unknown-code-calls': ['extract_format_type', 'extract_shape'],
 "code-''": {'header_untouched': True,
             'metadata_untouched': True,
             'raised': "{'type': 'builtins.ValueError', 'message': 'unknown type code: ', 'args': "
                       '"(\'unknown type code: \',)", \'cause\': None, \'context\': None, '
                       "'suppress_context': False}"},
 "code-'C*8'": {'array_metadata': '{\'dict\': [("str:\'type_code\'", "str:\'C*8\'"), '
                                  '("str:\'shape\'", {\'tuple\': [\'int:2\', \'int:4\']}), '
                                  '("str:\'dtype\'", "str:\'complex64\'"), ("str:\'byte_ranges\'", '
                                  "{'list': [{'tuple': ['int:1', 'int:5']}, {'tuple': ['int:6', "
                                  "'int:10']}]})]}",
                'array_metadata_keys': ['type_code', 'shape', 'dtype', 'byte_ranges'],
                'group': "{'Group': {'path': '/', 'url': None, 'attrs': {'dict': "
                         '[("str:\'coordinates\'", {\'list\': []})]}, \'data\': []}}',
                'header_untouched': True,
                'metadata_untouched': True,
                'result_type': 'tuple'},
 "code-'F*4'": {'header_untouched': True,
                'metadata_untouched': True,
                'raised': "{'type': 'builtins.ValueError', 'message': 'unknown type code: F*4', "
                          '\'args\': "(\'unknown type code: F*4\',)", \'cause\': None, '
                          "'context': None, 'suppress_context': False}"},
 "code-'IU2 '": {'header_untouched': True,
                 'metadata_untouched': True,
                 'raised': "{'type': 'builtins.ValueError', 'message': 'unknown type code: IU2 ', "
                           '\'args\': "(\'unknown type code: IU2 \',)", \'cause\': None, '
                           "'context': None, 'suppress_context': False}"},
 "code-'IU2'": {'array_metadata': '{\'dict\': [("str:\'type_code\'", "str:\'IU2\'"), '
                                  '("str:\'shape\'", {\'tuple\': [\'int:2\', \'int:4\']}), '
                                  '("str:\'dtype\'", "str:\'uint16\'"), ("str:\'byte_ranges\'", '
                                  "{'list': [{'tuple': ['int:1', 'int:5']}, {'tuple': ['int:6', "
                                  "'int:10']}]})]}",
                'array_metadata_keys': ['type_code', 'shape', 'dtype', 'byte_ranges'],
                'group': "{'Group': {'path': '/', 'url': None, 'attrs': {'dict': "
                         '[("str:\'coordinates\'", {\'list\': []})]}, \'data\': []}}',
                'header_untouched': True,
                'metadata_untouched': True,
                'result_type': 'tuple'},
 "code-'c*8'": {'header_untouched': True,
                'metadata_untouched': True,
                'raised': "{'type': 'builtins.ValueError', 'message': 'unknown type code: c*8', "
                          '\'args\': "(\'unknown type code: c*8\',)", \'cause\': None, '
                          "'context': None, 'suppress_context': False}"},
 "code-('C*8',)": {'header_untouched': True,
                   'metadata_untouched': True,
                   'raised': '{\'type\': \'builtins.ValueError\', \'message\': "unknown type code: '
                             '(\'C*8\',)", \'args\': \'("unknown type code: (\\\'C*8\\\',)",)\', '
                             "'cause': None, 'context': None, 'suppress_context': False}"},
 'code-0': {'header_untouched': True,
            'metadata_untouched': True,
            'raised': "{'type': 'builtins.ValueError', 'message': 'unknown type code: 0', 'args': "
                      '"(\'unknown type code: 0\',)", \'cause\': None, \'context\': None, '
                      "'suppress_context': False}"},
 'code-1.5': {'header_untouched': True,
              'metadata_untouched': True,
              'raised': "{'type': 'builtins.ValueError', 'message': 'unknown type code: 1.5', "
                        '\'args\': "(\'unknown type code: 1.5\',)", \'cause\': None, \'context\': '
                        "None, 'suppress_context': False}"},
 'code-None': {'header_untouched': True,
               'metadata_untouched': True,
               'raised': "{'type': 'builtins.ValueError', 'message': 'unknown type code: None', "
                         '\'args\': "(\'unknown type code: None\',)", \'cause\': None, '
                         "'context': None, 'suppress_context': False}"},
 "code-b'IU2'": {'header_untouched': True,
                 'metadata_untouched': True,
                 'raised': '{\'type\': \'builtins.ValueError\', \'message\': "unknown type code: '
                           'b\'IU2\'", \'args\': \'("unknown type code: b\\\'IU2\\\'",)\', '
                           "'cause': None, 'context': None, 'suppress_context': False}"},
 'code-unhashable-dict': {'header_untouched': True,
                          'metadata_untouched': True,
                          'raised': '{\'type\': \'builtins.TypeError\', \'message\': "unhashable '
                                    'type: \'dict\'", \'args\': \'("unhashable type: '
                                    '\\\'dict\\\'",)\', \'cause\': None, \'context\': None, '
                                    "'suppress_context': False}"},
 'code-unhashable-list': {'header_untouched': True,
                          'metadata_untouched': True,
                          'raised': '{\'type\': \'builtins.TypeError\', \'message\': "unhashable '
                                    'type: \'list\'", \'args\': \'("unhashable type: '
                                    '\\\'list\\\'",)\', \'cause\': None, \'context\': None, '
                                    "'suppress_context': False}"},
 'code-with-braces': {'header_untouched': True,
                      'metadata_untouched': True,
                      'raised': "{'type': 'builtins.ValueError', 'message': 'unknown type code: "
                                '{0}{x}%s\', \'args\': "(\'unknown type code: {0}{x}%s\',)", '
                                "'cause': None, 'context': None, 'suppress_context': False}"},
 'coordinates-attr-in-header': {'array_metadata': '{\'dict\': [("str:\'type_code\'", '
                                                  '"str:\'C*8\'"), ("str:\'shape\'", {\'tuple\': '
                                                  '[\'int:2\', \'int:4\']}), ("str:\'dtype\'", '
                                                  '"str:\'complex64\'"), ("str:\'byte_ranges\'", '
                                                  "{'list': [{'tuple': ['int:5', 'int:21']}, "
                                                  "{'tuple': ['int:25', 'int:41']}]})]}",
                                'array_metadata_keys': ['type_code',
                                                        'shape',
                                                        'dtype',
                                                        'byte_ranges'],
                                'group': "{'Group': {'path': '/', 'url': None, 'attrs': {'dict': "
                                         '[("str:\'scan_id\'", \'int:1\'), '
                                         '("str:\'interleaving_id\'", "str:\'BIP\'"), '
                                         '("str:\'coordinates\'", {\'list\': ["str:\'rows\'"]})]}, '
                                         "'data': [('rows', {'Variable': [{'list': "
                                         '["str:\'rows\'"]}, {\'list\': [\'int:1\', \'int:2\']}, '
                                         "{'dict': []}]})]}}",
                                'header_untouched': True,
                                'metadata_untouched': True,
                                'result_type': 'tuple'},
 'dates': {'array_metadata': '{\'dict\': [("str:\'type_code\'", "str:\'C*8\'"), ("str:\'shape\'", '
                             '{\'tuple\': [\'int:2\', \'int:4\']}), ("str:\'dtype\'", '
                             '"str:\'complex64\'"), ("str:\'byte_ranges\'", {\'list\': '
                             "[{'tuple': ['int:0', 'int:1']}, {'tuple': ['int:1', 'int:2']}]})]}",
           'array_metadata_keys': ['type_code', 'shape', 'dtype', 'byte_ranges'],
           'group': "{'Group': {'path': '/', 'url': None, 'attrs': {'dict': "
                    '[("str:\'coordinates\'", {\'list\': ["str:\'sensor_acquisition_date\'"]})]}, '
                    "'data': [('sensor_acquisition_date', {'Variable': [{'list': "
                    '["str:\'rows\'"]}, {\'ndarray\': [\'datetime64[ns]\', [2], '
                    "['2020-10-01T12:00:00.000000000', '2020-10-02T12:00:00.000000000']]}, "
                    "{'dict': []}]})]}}",
           'header_untouched': True,
           'metadata_untouched': True,
           'result_type': 'tuple'},
 'header-attrs': {'array_metadata': '{\'dict\': [("str:\'type_code\'", "str:\'IU2\'"), '
                                    '("str:\'shape\'", {\'tuple\': [\'int:2\', \'int:4\']}), '
                                    '("str:\'dtype\'", "str:\'uint16\'"), ("str:\'byte_ranges\'", '
                                    "{'list': [{'tuple': ['int:5', 'int:21']}, {'tuple': "
                                    "['int:25', 'int:41']}]})]}",
                  'array_metadata_keys': ['type_code', 'shape', 'dtype', 'byte_ranges'],
                  'group': "{'Group': {'path': '/', 'url': None, 'attrs': {'dict': "
                           '[("str:\'scan_id\'", \'int:1\'), ("str:\'valid_range\'", {\'list\': '
                           '[\'int:0\', \'int:255\']}), ("str:\'interleaving_id\'", '
                           '"str:\'BSQ\'"), ("str:\'coordinates\'", {\'list\': '
                           '["str:\'rows\'"]})]}, \'data\': [(\'rows\', {\'Variable\': [{\'list\': '
                           '["str:\'rows\'"]}, {\'list\': [\'int:1\', \'int:2\']}, {\'dict\': '
                           '[]}]})]}}',
                  'header_untouched': True,
                  'metadata_untouched': True,
                  'result_type': 'tuple'},
 'header-attrs-bad-value': {'header_untouched': True,
                            'metadata_untouched': True,
                            'raised': "{'type': 'builtins.TypeError', 'message': 'must be real "
                                      'number, not str\', \'args\': "(\'must be real number, not '
                                      'str\',)", \'cause\': None, \'context\': None, '
                                      "'suppress_context': False}"},
 'header-attrs-bad-value-unknown-code': {'header_untouched': True,
                                         'metadata_untouched': True,
                                         'raised': "{'type': 'builtins.ValueError', 'message': "
                                                   "'unknown type code: XXX', 'args': "
                                                   '"(\'unknown type code: XXX\',)", \'cause\': '
                                                   "None, 'context': None, 'suppress_context': "
                                                   'False}'},
 'header-attrs-nan': {'array_metadata': '{\'dict\': [("str:\'type_code\'", "str:\'IU2\'"), '
                                        '("str:\'shape\'", {\'tuple\': [\'int:2\', \'int:4\']}), '
                                        '("str:\'dtype\'", "str:\'uint16\'"), '
                                        '("str:\'byte_ranges\'", {\'list\': [{\'tuple\': '
                                        "['int:5', 'int:21']}, {'tuple': ['int:25', "
                                        "'int:41']}]})]}",
                      'array_metadata_keys': ['type_code', 'shape', 'dtype', 'byte_ranges'],
                      'group': "{'Group': {'path': '/', 'url': None, 'attrs': {'dict': "
                               '[("str:\'scan_id\'", \'int:1\'), ("str:\'interleaving_id\'", '
                               '"str:\'\'"), ("str:\'coordinates\'", {\'list\': '
                               '["str:\'rows\'"]})]}, \'data\': [(\'rows\', {\'Variable\': '
                               '[{\'list\': ["str:\'rows\'"]}, {\'list\': [\'int:1\', \'int:2\']}, '
                               "{'dict': []}]})]}}",
                      'header_untouched': True,
                      'metadata_untouched': True,
                      'result_type': 'tuple'},
 'header-none': {'header_untouched': True,
                 'metadata_untouched': True,
                 'raised': '{\'type\': \'builtins.TypeError\', \'message\': "\'NoneType\' object '
                           'is not subscriptable", \'args\': \'("\\\'NoneType\\\' object is not '
                           'subscriptable",)\', \'cause\': None, \'context\': None, '
                           "'suppress_context': False}"},
 'metadata-data-not-mapping': {'header_untouched': True,
                               'metadata_untouched': True,
                               'raised': "{'type': 'builtins.TypeError', 'message': 'list indices "
                                         "must be integers or slices, not str', 'args': "
                                         '"(\'list indices must be integers or slices, not '
                                         'str\',)", \'cause\': None, \'context\': None, '
                                         "'suppress_context': False}"},
 'metadata-dict-of-records': {'header_untouched': True,
                              'metadata_untouched': True,
                              'raised': '{\'type\': \'builtins.TypeError\', \'message\': "\'int\' '
                                        'object is not subscriptable", \'args\': \'("\\\'int\\\' '
                                        'object is not subscriptable",)\', \'cause\': None, '
                                        "'context': None, 'suppress_context': False}"},
 'metadata-empty': {'array_metadata': '{\'dict\': [("str:\'type_code\'", "str:\'IU2\'"), '
                                      '("str:\'shape\'", {\'tuple\': [\'int:2\', \'int:4\']}), '
                                      '("str:\'dtype\'", "str:\'uint16\'"), '
                                      '("str:\'byte_ranges\'", {\'list\': []})]}',
                    'array_metadata_keys': ['type_code', 'shape', 'dtype', 'byte_ranges'],
                    'group': "{'Group': {'path': '/', 'url': None, 'attrs': {'dict': "
                             '[("str:\'coordinates\'", {\'list\': []})]}, \'data\': []}}',
                    'header_untouched': True,
                    'metadata_untouched': True,
                    'result_type': 'tuple'},
 'metadata-generator': {'array_metadata': '{\'dict\': [("str:\'type_code\'", "str:\'IU2\'"), '
                                          '("str:\'shape\'", {\'tuple\': [\'int:2\', \'int:4\']}), '
                                          '("str:\'dtype\'", "str:\'uint16\'"), '
                                          '("str:\'byte_ranges\'", {\'list\': [{\'tuple\': '
                                          "['int:5', 'int:21']}, {'tuple': ['int:25', "
                                          "'int:41']}]})]}",
                        'array_metadata_keys': ['type_code', 'shape', 'dtype', 'byte_ranges'],
                        'group': "{'Group': {'path': '/', 'url': None, 'attrs': {'dict': "
                                 '[("str:\'coordinates\'", {\'list\': []})]}, \'data\': []}}',
                        'header_untouched': True,
                        'result_type': 'tuple'},
 'metadata-generator-unknown-code': {'header_untouched': True,
                                     'raised': "{'type': 'builtins.ValueError', 'message': "
                                               '\'unknown type code: F*4\', \'args\': "(\'unknown '
                                               'type code: F*4\',)", \'cause\': None, \'context\': '
                                               "None, 'suppress_context': False}"},
 'metadata-none': {'header_untouched': True,
                   'metadata_untouched': True,
                   'raised': '{\'type\': \'builtins.TypeError\', \'message\': "\'NoneType\' object '
                             'is not iterable", \'args\': \'("\\\'NoneType\\\' object is not '
                             'iterable",)\', \'cause\': None, \'context\': None, '
                             "'suppress_context': False}"},
 'metadata-not-records': {'header_untouched': True,
                          'metadata_untouched': True,
                          'raised': '{\'type\': \'builtins.TypeError\', \'message\': "\'int\' '
                                    'object is not subscriptable", \'args\': \'("\\\'int\\\' '
                                    'object is not subscriptable",)\', \'cause\': None, '
                                    "'context': None, 'suppress_context': False}"},
 'metadata-tuple': {'array_metadata': '{\'dict\': [("str:\'type_code\'", "str:\'IU2\'"), '
                                      '("str:\'shape\'", {\'tuple\': [\'int:2\', \'int:4\']}), '
                                      '("str:\'dtype\'", "str:\'uint16\'"), '
                                      '("str:\'byte_ranges\'", {\'list\': [{\'tuple\': [\'int:5\', '
                                      "'int:21']}, {'tuple': ['int:25', 'int:41']}]})]}",
                    'array_metadata_keys': ['type_code', 'shape', 'dtype', 'byte_ranges'],
                    'group': "{'Group': {'path': '/', 'url': None, 'attrs': {'dict': "
                             '[("str:\'scan_id\'", \'int:1\'), ("str:\'coordinates\'", {\'list\': '
                             '["str:\'rows\'"]})]}, \'data\': [(\'rows\', {\'Variable\': '
                             '[{\'list\': ["str:\'rows\'"]}, {\'list\': [\'int:1\', \'int:2\']}, '
                             "{'dict': []}]})]}}",
                    'header_untouched': True,
                    'metadata_untouched': True,
                    'result_type': 'tuple'},
 'module-dtypes': {'C*8': ['Complex64DType', 'complex64'], 'IU2': ['UInt16DType', 'uint16']},
 'order-code-before-line-metadata': {'header_untouched': True,
                                     'metadata_untouched': True,
                                     'raised': "{'type': 'builtins.TypeError', 'message': "
                                               '"\'int\' object is not subscriptable", \'args\': '
                                               '\'("\\\'int\\\' object is not subscriptable",)\', '
                                               "'cause': None, 'context': None, "
                                               "'suppress_context': False}"},
 'order-code-key-before-shape': {'header_untouched': True,
                                 'metadata_untouched': True,
                                 'raised': "{'type': 'builtins.KeyError', 'message': "
                                           '"\'sar_data_format_type_code\'", \'args\': '
                                           '"(\'sar_data_format_type_code\',)", \'cause\': None, '
                                           "'context': None, 'suppress_context': False}"},
 'order-data-before-code': {'header_untouched': True,
                            'metadata_untouched': True,
                            'raised': '{\'type\': \'builtins.KeyError\', \'message\': "\'data\'", '
                                      '\'args\': "(\'data\',)", \'cause\': None, \'context\': '
                                      "None, 'suppress_context': False}"},
 'order-data-before-locators': {'header_untouched': True,
                                'metadata_untouched': True,
                                'raised': "{'type': 'builtins.KeyError', 'message': "
                                          '"\'data\'", \'args\': "(\'data\',)", \'cause\': None, '
                                          "'context': None, 'suppress_context': False}"},
 'order-line-metadata-error': {'array_metadata': '{\'dict\': [("str:\'type_code\'", '
                                                 '"str:\'IU2\'"), ("str:\'shape\'", {\'tuple\': '
                                                 '[\'int:2\', \'int:4\']}), ("str:\'dtype\'", '
                                                 '"str:\'uint16\'"), ("str:\'byte_ranges\'", '
                                                 "{'list': [{'tuple': ['int:1', 'int:2']}, "
                                                 "{'tuple': ['int:1', 'int:2']}]})]}",
                               'array_metadata_keys': ['type_code',
                                                       'shape',
                                                       'dtype',
                                                       'byte_ranges'],
                               'group': "{'Group': {'path': '/', 'url': None, 'attrs': {'dict': "
                                        '[("str:\'coordinates\'", {\'list\': ["str:\'a\'"]})]}, '
                                        "'data': [('a', {'Variable': [{'list': "
                                        '["str:\'rows\'"]}, {\'list\': [\'int:1\', {\'tuple\': '
                                        "['int:1', 'int:2', 'int:3']}]}, {'dict': []}]})]}}",
                               'header_untouched': True,
                               'metadata_untouched': True,
                               'result_type': 'tuple'},
 'order-locators-before-shape': {'header_untouched': True,
                                 'metadata_untouched': True,
                                 'raised': "{'type': 'builtins.KeyError', 'message': "
                                           '"\'prefix_suffix_data_locators\'", \'args\': '
                                           '"(\'prefix_suffix_data_locators\',)", \'cause\': None, '
                                           "'context': None, 'suppress_context': False}"},
 'order-shape-before-code-check': {'header_untouched': True,
                                   'metadata_untouched': True,
                                   'raised': "{'type': 'builtins.KeyError', 'message': "
                                             '"\'sar_related_data_in_the_record\'", \'args\': '
                                             '"(\'sar_related_data_in_the_record\',)", \'cause\': '
                                             "None, 'context': None, 'suppress_context': False}"},
 'order-shape-groups-missing': {'header_untouched': True,
                                'metadata_untouched': True,
                                'raised': "{'type': 'builtins.KeyError', 'message': "
                                          '"\'number_of_data_groups_per_line\'", \'args\': '
                                          '"(\'number_of_data_groups_per_line\',)", \'cause\': '
                                          "None, 'context': None, 'suppress_context': False}"},
 'order-shape-lines-first': {'header_untouched': True,
                             'metadata_untouched': True,
                             'raised': "{'type': 'builtins.KeyError', 'message': "
                                       '"\'number_of_lines_per_dataset\'", \'args\': '
                                       '"(\'number_of_lines_per_dataset\',)", \'cause\': None, '
                                       "'context': None, 'suppress_context': False}"},
 'order-start-before-stop': {'header_untouched': True,
                             'metadata_untouched': True,
                             'raised': "{'type': 'builtins.KeyError', 'message': "
                                       '"\'start\'", \'args\': "(\'start\',)", \'cause\': None, '
                                       "'context': None, 'suppress_context': False}"},
 'order-stop-missing': {'header_untouched': True,
                        'metadata_untouched': True,
                        'raised': '{\'type\': \'builtins.KeyError\', \'message\': "\'stop\'", '
                                  '\'args\': "(\'stop\',)", \'cause\': None, \'context\': None, '
                                  "'suppress_context': False}"},
 'public-names': ['apply_overrides',
                  'curry',
                  'deduplicate_attrs',
                  'dtypes',
                  'extract_attrs',
                  'extract_format_type',
                  'extract_shape',
                  'math',
                  'np',
                  'pipe',
                  'transform_line_metadata',
                  'transform_metadata'],
 'ranges-not-int': {'array_metadata': '{\'dict\': [("str:\'type_code\'", "str:\'C*8\'"), '
                                      '("str:\'shape\'", {\'tuple\': [\'int:2\', \'int:4\']}), '
                                      '("str:\'dtype\'", "str:\'complex64\'"), '
                                      '("str:\'byte_ranges\'", {\'list\': [{\'tuple\': '
                                      '["str:\'a\'", \'NoneType:None\']}, {\'tuple\': '
                                      "['float:1.5', {'tuple': ['int:1']}]}]})]}",
                    'array_metadata_keys': ['type_code', 'shape', 'dtype', 'byte_ranges'],
                    'group': "{'Group': {'path': '/', 'url': None, 'attrs': {'dict': "
                             '[("str:\'coordinates\'", {\'list\': []})]}, \'data\': []}}',
                    'header_untouched': True,
                    'metadata_untouched': True,
                    'result_type': 'tuple'},
 'real-blank-code': {'header_untouched': True,
                     'metadata_untouched': True,
                     'raised': "{'type': 'builtins.ValueError', 'message': 'unknown type code: ', "
                               '\'args\': "(\'unknown type code: \',)", \'cause\': None, '
                               "'context': None, 'suppress_context': False}"},
 'real-bursts': {'array_metadata': '{\'dict\': [("str:\'type_code\'", "str:\'C*8\'"), '
                                   '("str:\'shape\'", {\'tuple\': [\'int:3\', \'int:4\']}), '
                                   '("str:\'dtype\'", "str:\'complex64\'"), '
                                   '("str:\'byte_ranges\'", {\'list\': [{\'tuple\': [\'int:1264\', '
                                   "'int:1296']}, {'tuple': ['int:1840', 'int:1872']}, {'tuple': "
                                   "['int:2416', 'int:2448']}]})]}",
                 'array_metadata_keys': ['type_code', 'shape', 'dtype', 'byte_ranges'],
                 'group': 'sha256:e9bbce91a6c6adcf81820c1e281da8eab5d439c7bf33299923fd590cb49c8e37 '
                          'len=9711',
                 'header_untouched': True,
                 'metadata_untouched': True,
                 'result_type': 'tuple'},
 'real-bursts-zero': {'array_metadata': '{\'dict\': [("str:\'type_code\'", "str:\'C*8\'"), '
                                        '("str:\'shape\'", {\'tuple\': [\'int:3\', \'int:4\']}), '
                                        '("str:\'dtype\'", "str:\'complex64\'"), '
                                        '("str:\'byte_ranges\'", {\'list\': [{\'tuple\': '
                                        "['int:1264', 'int:1296']}, {'tuple': ['int:1840', "
                                        "'int:1872']}, {'tuple': ['int:2416', 'int:2448']}]})]}",
                      'array_metadata_keys': ['type_code', 'shape', 'dtype', 'byte_ranges'],
                      'group': 'sha256:5077c90fc37b08794ca118a3c05316e61b11ef7fbde4b7b4ad55f0b4de6d97ec '
                               'len=9711',
                      'header_untouched': True,
                      'metadata_untouched': True,
                      'result_type': 'tuple'},
 'real-lowercase-code': {'header_untouched': True,
                         'metadata_untouched': True,
                         'raised': "{'type': 'builtins.ValueError', 'message': 'unknown type code: "
                                   'iu2\', \'args\': "(\'unknown type code: iu2\',)", \'cause\': '
                                   "None, 'context': None, 'suppress_context': False}"},
 'real-no-records': {'array_metadata': '{\'dict\': [("str:\'type_code\'", "str:\'IU2\'"), '
                                       '("str:\'shape\'", {\'tuple\': [\'int:0\', \'int:4\']}), '
                                       '("str:\'dtype\'", "str:\'uint16\'"), '
                                       '("str:\'byte_ranges\'", {\'list\': []})]}',
                     'array_metadata_keys': ['type_code', 'shape', 'dtype', 'byte_ranges'],
                     'group': "{'Group': {'path': '/', 'url': None, 'attrs': {'dict': "
                              '[("str:\'interleaving_id\'", "str:\'BSQ\'"), '
                              '("str:\'coordinates\'", {\'list\': []})]}, \'data\': []}}',
                     'header_untouched': True,
                     'metadata_untouched': True,
                     'result_type': 'tuple'},
 'real-processed': {'array_metadata': '{\'dict\': [("str:\'type_code\'", "str:\'IU2\'"), '
                                      '("str:\'shape\'", {\'tuple\': [\'int:4\', \'int:4\']}), '
                                      '("str:\'dtype\'", "str:\'uint16\'"), '
                                      '("str:\'byte_ranges\'", {\'list\': [{\'tuple\': '
                                      "['int:912', 'int:920']}, {'tuple': ['int:1112', "
                                      "'int:1120']}, {'tuple': ['int:1312', 'int:1320']}, "
                                      "{'tuple': ['int:1512', 'int:1520']}]})]}",
                    'array_metadata_keys': ['type_code', 'shape', 'dtype', 'byte_ranges'],
                    'group': 'sha256:5c4178092d515344d6fbc08cc1d78e04fa4ffb577c0ce63112c4ff1e3ce51333 '
                             'len=5696',
                    'header_untouched': True,
                    'metadata_untouched': True,
                    'result_type': 'tuple'},
 'real-processed-1': {'array_metadata': '{\'dict\': [("str:\'type_code\'", "str:\'IU2\'"), '
                                        '("str:\'shape\'", {\'tuple\': [\'int:1\', \'int:4\']}), '
                                        '("str:\'dtype\'", "str:\'uint16\'"), '
                                        '("str:\'byte_ranges\'", {\'list\': [{\'tuple\': '
                                        "['int:912', 'int:920']}]})]}",
                      'array_metadata_keys': ['type_code', 'shape', 'dtype', 'byte_ranges'],
                      'group': 'sha256:612d5d317d2d2a98e698c718b5f3b631644bdc2e143bcf98697f44d270913ac1 '
                               'len=4772',
                      'header_untouched': True,
                      'metadata_untouched': True,
                      'result_type': 'tuple'},
 'real-signal': {'array_metadata': '{\'dict\': [("str:\'type_code\'", "str:\'C*8\'"), '
                                   '("str:\'shape\'", {\'tuple\': [\'int:5\', \'int:4\']}), '
                                   '("str:\'dtype\'", "str:\'complex64\'"), '
                                   '("str:\'byte_ranges\'", {\'list\': [{\'tuple\': [\'int:1264\', '
                                   "'int:1296']}, {'tuple': ['int:1840', 'int:1872']}, {'tuple': "
                                   "['int:2416', 'int:2448']}, {'tuple': ['int:2992', "
                                   "'int:3024']}, {'tuple': ['int:3568', 'int:3600']}]})]}",
                 'array_metadata_keys': ['type_code', 'shape', 'dtype', 'byte_ranges'],
                 'group': 'sha256:3b5a98f0722bf1921fa4bc77e845b496457229dad7758199cafa54f08c52291c '
                          'len=12477',
                 'header_untouched': True,
                 'metadata_untouched': True,
                 'result_type': 'tuple'},
 'real-unknown-code': {'header_untouched': True,
                       'metadata_untouched': True,
                       'raised': "{'type': 'builtins.ValueError', 'message': 'unknown type code: "
                                 'F*4\', \'args\': "(\'unknown type code: F*4\',)", \'cause\': '
                                 "None, 'context': None, 'suppress_context': False}"},
 'real-valid-range': {'array_metadata': '{\'dict\': [("str:\'type_code\'", "str:\'IU2\'"), '
                                        '("str:\'shape\'", {\'tuple\': [\'int:3\', \'int:4\']}), '
                                        '("str:\'dtype\'", "str:\'uint16\'"), '
                                        '("str:\'byte_ranges\'", {\'list\': [{\'tuple\': '
                                        "['int:912', 'int:920']}, {'tuple': ['int:1112', "
                                        "'int:1120']}, {'tuple': ['int:1312', 'int:1320']}]})]}",
                      'array_metadata_keys': ['type_code', 'shape', 'dtype', 'byte_ranges'],
                      'group': 'sha256:f38973a9fdb2c23c8c39ad70641a3f721e6c812961c8b4c7987e2c702591c4f1 '
                               'len=5444',
                      'header_untouched': True,
                      'metadata_untouched': True,
                      'result_type': 'tuple'},
 'real-valid-range-zero': {'array_metadata': '{\'dict\': [("str:\'type_code\'", "str:\'IU2\'"), '
                                             '("str:\'shape\'", {\'tuple\': [\'int:3\', '
                                             '\'int:4\']}), ("str:\'dtype\'", "str:\'uint16\'"), '
                                             '("str:\'byte_ranges\'", {\'list\': [{\'tuple\': '
                                             "['int:912', 'int:920']}, {'tuple': ['int:1112', "
                                             "'int:1120']}, {'tuple': ['int:1312', "
                                             "'int:1320']}]})]}",
                           'array_metadata_keys': ['type_code', 'shape', 'dtype', 'byte_ranges'],
                           'group': 'sha256:a13204abf31a8f2589c4d3e44c112b75e41399efe3b2b43d2c7b10292629cd5a '
                                    'len=5441',
                           'header_untouched': True,
                           'metadata_untouched': True,
                           'result_type': 'tuple'},
 'shape-not-int': {'array_metadata': '{\'dict\': [("str:\'type_code\'", "str:\'C*8\'"), '
                                     '("str:\'shape\'", {\'tuple\': [\'NoneType:None\', '
                                     '"str:\'x\'"]}), ("str:\'dtype\'", "str:\'complex64\'"), '
                                     '("str:\'byte_ranges\'", {\'list\': [{\'tuple\': [\'int:1\', '
                                     "'int:5']}, {'tuple': ['int:6', 'int:10']}]})]}",
                   'array_metadata_keys': ['type_code', 'shape', 'dtype', 'byte_ranges'],
                   'group': "{'Group': {'path': '/', 'url': None, 'attrs': {'dict': "
                            '[("str:\'coordinates\'", {\'list\': []})]}, \'data\': []}}',
                   'header_untouched': True,
                   'metadata_untouched': True,
                   'result_type': 'tuple'},
 'suite-1': {'array_metadata': '{\'dict\': [("str:\'type_code\'", "str:\'IU2\'"), '
                               '("str:\'shape\'", {\'tuple\': [\'int:2\', \'int:4\']}), '
                               '("str:\'dtype\'", "str:\'uint16\'"), ("str:\'byte_ranges\'", '
                               "{'list': [{'tuple': ['int:1', 'int:5']}, {'tuple': ['int:6', "
                               "'int:10']}]})]}",
             'array_metadata_keys': ['type_code', 'shape', 'dtype', 'byte_ranges'],
             'group': "{'Group': {'path': '/', 'url': None, 'attrs': {'dict': "
                      '[("str:\'coordinates\'", {\'list\': []})]}, \'data\': []}}',
             'header_untouched': True,
             'metadata_untouched': True,
             'result_type': 'tuple'},
 'suite-2': {'array_metadata': '{\'dict\': [("str:\'type_code\'", "str:\'C*8\'"), '
                               '("str:\'shape\'", {\'tuple\': [\'int:6\', \'int:3\']}), '
                               '("str:\'dtype\'", "str:\'complex64\'"), ("str:\'byte_ranges\'", '
                               "{'list': [{'tuple': ['int:1', 'int:5']}, {'tuple': ['int:6', "
                               "'int:10']}]})]}",
             'array_metadata_keys': ['type_code', 'shape', 'dtype', 'byte_ranges'],
             'group': "{'Group': {'path': '/', 'url': None, 'attrs': {'dict': "
                      '[("str:\'coordinates\'", {\'list\': []})]}, \'data\': []}}',
             'header_untouched': True,
             'metadata_untouched': True,
             'result_type': 'tuple'},
 'suite-3': {'header_untouched': True,
             'metadata_untouched': True,
             'raised': "{'type': 'builtins.ValueError', 'message': 'unknown type code: F*4', "
                       '\'args\': "(\'unknown type code: F*4\',)", \'cause\': None, \'context\': '
                       "None, 'suppress_context': False}"},
 'suite-4': {'array_metadata': '{\'dict\': [("str:\'type_code\'", "str:\'C*8\'"), '
                               '("str:\'shape\'", {\'tuple\': [\'int:6\', \'int:3\']}), '
                               '("str:\'dtype\'", "str:\'complex64\'"), ("str:\'byte_ranges\'", '
                               "{'list': [{'tuple': ['int:5', 'int:21']}, {'tuple': ['int:25', "
                               "'int:41']}]})]}",
             'array_metadata_keys': ['type_code', 'shape', 'dtype', 'byte_ranges'],
             'group': "{'Group': {'path': '/', 'url': None, 'attrs': {'dict': "
                      '[("str:\'scan_id\'", \'int:1\'), ("str:\'coordinates\'", {\'list\': '
                      '["str:\'rows\'"]})]}, \'data\': [(\'rows\', {\'Variable\': [{\'list\': '
                      '["str:\'rows\'"]}, {\'list\': [\'int:1\', \'int:2\']}, {\'dict\': []}]})]}}',
             'header_untouched': True,
             'metadata_untouched': True,
             'result_type': 'tuple'},
 'table-C*8': {'header_untouched': True,
               'metadata_untouched': True,
               'raised': "{'type': 'builtins.ValueError', 'message': 'unknown type code: C*8', "
                         '\'args\': "(\'unknown type code: C*8\',)", \'cause\': None, \'context\': '
                         "None, 'suppress_context': False}"},
 'table-F*4': {'array_metadata': '{\'dict\': [("str:\'type_code\'", "str:\'F*4\'"), '
                                 '("str:\'shape\'", {\'tuple\': [\'int:2\', \'int:4\']}), '
                                 '("str:\'dtype\'", "str:\'float32\'"), ("str:\'byte_ranges\'", '
                                 "{'list': [{'tuple': ['int:1', 'int:5']}, {'tuple': ['int:6', "
                                 "'int:10']}]})]}",
               'array_metadata_keys': ['type_code', 'shape', 'dtype', 'byte_ranges'],
               'group': "{'Group': {'path': '/', 'url': None, 'attrs': {'dict': "
                        '[("str:\'coordinates\'", {\'list\': []})]}, \'data\': []}}',
               'header_untouched': True,
               'metadata_untouched': True,
               'result_type': 'tuple'},
 'table-I': {'array_metadata': '{\'dict\': [("str:\'type_code\'", "str:\'I\'"), ("str:\'shape\'", '
                               '{\'tuple\': [\'int:2\', \'int:4\']}), ("str:\'dtype\'", '
                               '\'str:"<class \\\'numpy.int8\\\'>"\'), ("str:\'byte_ranges\'", '
                               "{'list': [{'tuple': ['int:1', 'int:5']}, {'tuple': ['int:6', "
                               "'int:10']}]})]}",
             'array_metadata_keys': ['type_code', 'shape', 'dtype', 'byte_ranges'],
             'group': "{'Group': {'path': '/', 'url': None, 'attrs': {'dict': "
                      '[("str:\'coordinates\'", {\'list\': []})]}, \'data\': []}}',
             'header_untouched': True,
             'metadata_untouched': True,
             'result_type': 'tuple'},
 'table-IU2': {'header_untouched': True,
               'metadata_untouched': True,
               'raised': "{'type': 'builtins.ValueError', 'message': 'unknown type code: IU2', "
                         '\'args\': "(\'unknown type code: IU2\',)", \'cause\': None, \'context\': '
                         "None, 'suppress_context': False}"},
 'table-S': {'array_metadata': '{\'dict\': [("str:\'type_code\'", "str:\'S\'"), ("str:\'shape\'", '
                               '{\'tuple\': [\'int:2\', \'int:4\']}), ("str:\'dtype\'", '
                               '"str:\'text\'"), ("str:\'byte_ranges\'", {\'list\': [{\'tuple\': '
                               "['int:1', 'int:5']}, {'tuple': ['int:6', 'int:10']}]})]}",
             'array_metadata_keys': ['type_code', 'shape', 'dtype', 'byte_ranges'],
             'group': "{'Group': {'path': '/', 'url': None, 'attrs': {'dict': "
                      '[("str:\'coordinates\'", {\'list\': []})]}, \'data\': []}}',
             'header_untouched': True,
             'metadata_untouched': True,
             'result_type': 'tuple'},
 'table-empty': {'header_untouched': True,
                 'metadata_untouched': True,
                 'raised': "{'type': 'builtins.ValueError', 'message': 'unknown type code: IU2', "
                           '\'args\': "(\'unknown type code: IU2\',)", \'cause\': None, '
                           "'context': None, 'suppress_context': False}"},
 'table-none': {'header_untouched': True,
                'metadata_untouched': True,
                'raised': '{\'type\': \'builtins.AttributeError\', \'message\': "\'NoneType\' '
                          'object has no attribute \'get\'", \'args\': \'("\\\'NoneType\\\' object '
                          'has no attribute \\\'get\\\'",)\', \'cause\': None, \'context\': None, '
                          "'suppress_context': False}"},
 'table-none-shape-first': {'header_untouched': True,
                            'metadata_untouched': True,
                            'raised': "{'type': 'builtins.KeyError', 'message': "
                                      '"\'sar_related_data_in_the_record\'", \'args\': '
                                      '"(\'sar_related_data_in_the_record\',)", \'cause\': None, '
                                      "'context': None, 'suppress_context': False}"},
 'types': {'array_metadata': 'dict',
           'attrs': 'dict',
           'attrs_order': ['scan_id', 'coordinates'],
           'byte_range': ['tuple'],
           'byte_ranges': 'list',
           'coordinates': 'list',
           'dtype': 'str',
           'group': 'Group',
           'shape': 'tuple'},
 'varying-attr': {'array_metadata': '{\'dict\': [("str:\'type_code\'", "str:\'C*8\'"), '
                                    '("str:\'shape\'", {\'tuple\': [\'int:2\', \'int:4\']}), '
                                    '("str:\'dtype\'", "str:\'complex64\'"), '
                                    '("str:\'byte_ranges\'", {\'list\': [{\'tuple\': [\'int:0\', '
                                    "'int:1']}, {'tuple': ['int:1', 'int:2']}]})]}",
                  'array_metadata_keys': ['type_code', 'shape', 'dtype', 'byte_ranges'],
                  'group': "{'Group': {'path': '/', 'url': None, 'attrs': {'dict': "
                           '[("str:\'scan_id\'", \'int:1\'), ("str:\'coordinates\'", {\'list\': '
                           '["str:\'prf\'"]})]}, \'data\': [(\'prf\', {\'Variable\': [{\'list\': '
                           '["str:\'rows\'"]}, {\'list\': [\'int:5\', \'int:6\']}, {\'dict\': '
                           '[("str:\'units\'", "str:\'mHz\'")]}]})]}}',
                  'header_untouched': True,
                  'metadata_untouched': True,
                  'result_type': 'tuple'}}
# EXPECTED-END

if __name__ == "__main__":
    if "--record" in sys.argv:
        source = open(__file__).read()
        head, rest = source.split("# EXPECTED-BEGIN\n", 1)
        _, tail = rest.split("# EXPECTED-END\n", 1)
        body = "EXPECTED = " + pprint.pformat(run(), width=100, sort_dicts=True) + "\n"
        open(__file__, "w").write(head + "# EXPECTED-BEGIN\n" + body + "# EXPECTED-END\n" + tail)
        print("recorded")
    else:
        test_equivalence()
        print(f"OK: {len(EXPECTED)} cases identical")
