"""Equivalence check for refactoring 4 (``extract_encoding``, ``to_variable``, ``to_dataset``
and ``to_datatree`` in ceos_alos2/xarray.py).

Converts a spread of ``hierarchy.Variable`` / ``Group`` objects (in-memory and lazily read
``Array`` data, coordinates, nested groups, malformed input) to xarray objects and compares
names and their order, dims, dtypes, attrs, encodings, wrapper types, the number of locks
created, the requested dask chunks, the loaded values, the I/O requests and the exceptions
with what the unchanged code produced.

``Dataset.chunk`` is replaced by a recorder so the check does not depend on dask.

Run as ``PYTHONPATH=<worktree> python equiv.py`` (exit status 0 = equivalent) or with pytest.
"""

import io
import pprint
import sys

import numpy as np


def canon(obj):
    """Canonical, type-preserving text form of a result."""
    if isinstance(obj, BaseException):
        return f"raise {type(obj).__module__}.{type(obj).__qualname__}: {obj}"
    if isinstance(obj, np.ndarray):
        return f"ndarray[{obj.dtype.str}{obj.shape}]{obj.tolist()!r}"
    if isinstance(obj, np.generic):
        return f"{type(obj).__name__}({obj.item()!r})"
    if isinstance(obj, dict):
        items = ", ".join(f"{canon(k)}: {canon(v)}" for k, v in obj.items())
        return f"{type(obj).__name__}{{{items}}}"
    if isinstance(obj, (list, tuple)):
        return f"{type(obj).__name__}({', '.join(canon(v) for v in obj)})"
    return f"{type(obj).__name__}:{obj!r}"


def attempt(func, *args, **kwargs):
    try:
        return canon(func(*args, **kwargs))
    except Exception as e:  # noqa: BLE001
        return canon(e)


class RecordingFile:
    def __init__(self, content, log):
        self._buffer = io.BytesIO(content)
        self._log = log

    def __enter__(self):
        self._log.append("enter")
        return self

    def __exit__(self, *exc_info):
        self._log.append("exit")
        return False

    def seek(self, *args, **kwargs):
        self._log.append(("seek", args, kwargs))
        return self._buffer.seek(*args, **kwargs)

    def read(self, *args, **kwargs):
        self._log.append(("read", args, kwargs))
        return self._buffer.read(*args, **kwargs)


class RecordingFS:
    """minimal file system: records every request made by the code under test"""

    def __init__(self, files):
        self.files = files
        self.log = []

    def open(self, *args, **kwargs):
        self.log.append(("open", args, kwargs))
        return RecordingFile(self.files[args[0]], self.log)

    def take_log(self):
        log, self.log = self.log, []
        return repr(log)


import types  # noqa: E402
from collections.abc import Mapping  # noqa: E402

import xarray as xr  # noqa: E402

from ceos_alos2 import io as ceos_io  # noqa: E402
from ceos_alos2 import xarray as cx  # noqa: E402
from ceos_alos2.array import Array  # noqa: E402
from ceos_alos2.hierarchy import Group, Variable  # noqa: E402

FS = RecordingFS({})


def lazy(shape=(4, 6), records_per_chunk=2, dtype="uint16", name=None, type_code="IU2"):
    """an ``Array`` reading a file with one record per row from the recording file system"""
    n_rows = shape[0]
    n_cols = int(np.prod(shape[1:], dtype=int)) if len(shape) > 1 else 1
    data = (np.arange(n_rows * n_cols) * 3 % 251).astype("uint16").reshape(n_rows, n_cols)
    name = name or f"file-{'x'.join(map(str, shape))}-{records_per_chunk}-{dtype}"
    content = b""
    byte_ranges = []
    for row in data:
        content += b"\xaa" * 16
        byte_ranges.append((len(content), len(content) + 2 * n_cols))
        content += row.astype(">u2").tobytes()
    FS.files[name] = content
    return Array(
        fs=FS,
        url=name,
        byte_ranges=byte_ranges,
        shape=shape,
        dtype=dtype,
        type_code=type_code,
        records_per_chunk=records_per_chunk,
    )


class ReadOnlyChunks(Mapping):
    def __init__(self, data):
        self._data = data

    def __getitem__(self, key):
        return self._data[key]

    def __iter__(self):
        return iter(self._data)

    def __len__(self):
        return len(self._data)

    def __repr__(self):
        return f"ReadOnlyChunks({self._data!r})"


def fake_var(chunks, sizes, dims=("x", "y"), data=None, attrs=None):
    if data is None:
        data = np.zeros([sizes.get(d, 1) for d in dims])
    return types.SimpleNamespace(
        chunks=chunks, sizes=sizes, dims=list(dims), data=data, attrs=attrs or {}
    )


ENCODING_VARS = {
    "numpy-1d": lambda: Variable("x", np.array([1], dtype="int8"), {}),
    "numpy-2d": lambda: Variable(["x", "y"], np.zeros((2, 3)), {"a": 1}),
    "numpy-0d": lambda: Variable([], np.array(1.5), {}),
    "list-data": lambda: Variable("x", [1, 2, 3], {}),
    "lazy-1d": lambda: Variable("x", lazy((4,), 2), {}),
    "lazy-2d-1": lambda: Variable(["a", "b"], lazy((4, 3), 1), {}),
    "lazy-2d-all": lambda: Variable(["a", "b"], lazy((4, 3), -1), {}),
    "lazy-2d-big": lambda: Variable(["a", "b"], lazy((4, 3), 100), {}),
    "lazy-2d-none": lambda: Variable(["a", "b"], lazy((4, 3), None), {}),
    "lazy-2d-auto": lambda: Variable(["a", "b"], lazy((4, 3), "auto"), {}),
    "lazy-2d-bytes": lambda: Variable(["a", "b"], lazy((4, 3), "12B"), {}),
    "lazy-3d": lambda: Variable(["a", "b", "c"], lazy((4, 3, 2), 3), {}),
    "lazy-fewer-dims": lambda: Variable(["a"], lazy((4, 3), 2), {}),
    "lazy-more-dims": lambda: Variable(["a", "b", "c"], lazy((4, 3), 2), {}),
    "lazy-same-dims": lambda: Variable(["a", "a"], lazy((4, 3), 2), {}),
    "fake-empty": lambda: fake_var({}, {}),
    "fake-all-none": lambda: fake_var({"x": None, "y": None}, {"x": 4, "y": 5}),
    "fake-all-none-no-sizes": lambda: fake_var({"x": None}, None),
    "fake-first-none": lambda: fake_var({"x": None, "y": 2}, {"x": 4, "y": 5}),
    "fake-last-none": lambda: fake_var({"x": 3, "y": None}, {"x": 4, "y": 5}),
    "fake-minus-one": lambda: fake_var({"x": -1, "y": -1}, {"x": 4, "y": 5}),
    "fake-minus-one-float": lambda: fake_var({"x": -1.0, "y": 2.5}, {"x": 4, "y": 5}),
    "fake-np": lambda: fake_var({"x": np.int64(-1), "y": np.int64(2)}, {"x": np.int64(4), "y": 5}),
    "fake-zero-false": lambda: fake_var({"x": 0, "y": False}, {"x": 4, "y": 5}),
    "fake-true": lambda: fake_var({"x": True, "y": -2}, {"x": 4, "y": 5}),
    "fake-str": lambda: fake_var({"x": "auto", "y": None}, {"x": 4, "y": 5}),
    "fake-tuple": lambda: fake_var({"x": (2, 2), "y": -1}, {"x": 4, "y": 5}),
    "fake-missing-size": lambda: fake_var({"x": 2, "y": -1}, {"x": 4}),
    "fake-missing-size-unused": lambda: fake_var({"x": 2, "y": 3}, {"x": 4}),
    "fake-sizes-none": lambda: fake_var({"x": 2, "y": -1}, None),
    "fake-order": lambda: fake_var({"y": -1, "x": 2, "z": None}, {"x": 4, "y": 5, "z": 6}, dims="yxz"),
    "fake-readonly": lambda: fake_var(ReadOnlyChunks({"x": -1, "y": 7}), ReadOnlyChunks({"x": 4, "y": 9})),
    "fake-chunks-none": lambda: fake_var(None, {"x": 4}),
    "fake-chunks-list": lambda: fake_var([2, 3], {"x": 4}),
    "fake-array-chunk": lambda: fake_var({"x": np.array([1, 2])}, {"x": 4}),
    "no-chunks-attr": lambda: types.SimpleNamespace(sizes={}),
    "None": lambda: None,
}

VARIABLES = {
    "numpy-1d": lambda: Variable("x", np.array([1, 2], dtype="int8"), {"a": 1}),
    "numpy-2d": lambda: Variable(["x", "y"], np.arange(12.0).reshape(3, 4), {"b": "abc", "c": [1, 2]}),
    "numpy-0d": lambda: Variable([], np.array(1.5), {}),
    "numpy-str": lambda: Variable("t", np.array(["a", "bc"]), {}),
    "numpy-datetime": lambda: Variable("t", np.array(["2020-01-01", "2021-06-01"], dtype="M8[ns]"), {}),
    "numpy-complex": lambda: Variable("t", np.array([1 + 2j]), {"units": "1"}),
    "list-data": lambda: Variable("x", [1, 2, 3], {}),
    "scalar-data": lambda: Variable([], 4, {}),
    "tuple-dims": lambda: Variable(("x", "y"), np.zeros((2, 2)), {}),
    "lazy-2d": lambda: Variable(["rows", "cols"], lazy((4, 6), 2), {"units": "dn"}),
    "lazy-2d-1": lambda: Variable(["rows", "cols"], lazy((5, 3), 1), {}),
    "lazy-2d-all": lambda: Variable(["rows", "cols"], lazy((5, 3), -1), {}),
    "lazy-2d-none": lambda: Variable(["rows", "cols"], lazy((5, 3), None), {}),
    "lazy-2d-auto": lambda: Variable(["rows", "cols"], lazy((5, 3), "auto"), {}),
    "lazy-1d": lambda: Variable("rows", lazy((4,), 3), {}),
    "lazy-float-dtype": lambda: Variable(["rows", "cols"], lazy((4, 6), 2, dtype="float32"), {}),
    "lazy-bad-type-code": lambda: Variable(["rows", "cols"], lazy((4, 6), 2, type_code="XX"), {}),
    "dims-mismatch": lambda: Variable(["x"], np.zeros((2, 2)), {}),
    "lazy-dims-mismatch": lambda: Variable(["rows"], lazy((4, 6), 2), {}),
    "attrs-none": lambda: Variable("x", np.zeros(2), None),
    "attrs-list": lambda: Variable("x", np.zeros(2), [("a", 1)]),
    "attrs-bad": lambda: Variable("x", np.zeros(2), 5),
    "fake-chunked-numpy": lambda: fake_var({"x": 2, "y": -1}, {"x": 4, "y": 5}, data=np.ones((4, 5))),
    "fake-missing-size": lambda: fake_var({"x": 2, "y": -1}, {"x": 4}, data=np.ones((4, 5))),
    "fake-lazy": lambda: fake_var({"x": None, "y": 3}, {"x": 4, "y": 6}, data=lazy((4, 6), 4)),
    "no-data": lambda: types.SimpleNamespace(dims=["x"], attrs={}, chunks={}, sizes={}),
    "no-dims": lambda: types.SimpleNamespace(data=np.zeros(2), attrs={}, chunks={}, sizes={}),
    "no-dims-no-chunks": lambda: types.SimpleNamespace(data=np.zeros(2), attrs={}),
    "no-attrs-no-chunks": lambda: types.SimpleNamespace(data=np.zeros(2), dims=["x"]),
    "None": lambda: None,
}


def join(parts):
    return "{" + "; ".join(f"{key}={value}" for key, value in parts.items()) + "}"


def describe_data(data, depth=0):
    """the chain of wrappers around the data of a variable"""
    parts = [type(data).__name__]
    inner = getattr(data, "array", None)
    if inner is not None and depth < 6 and not isinstance(data, np.ndarray):
        parts.extend(describe_data(inner, depth + 1))
    return parts


def describe_variable(var, load=True):
    parts = {
        "type": type(var).__name__,
        "dims": canon(var.dims),
        "shape": canon(var.shape),
        "dtype": repr(var.dtype),
        "attrs": canon(var.attrs),
        "encoding": canon(var.encoding),
        "in_memory": var._in_memory,
        "data": describe_data(var._data),
    }
    wrapper = getattr(var._data, "array", None)
    if isinstance(wrapper, cx.LazilyIndexedWrapper):
        parts["wrapper"] = (
            canon(wrapper.shape),
            repr(wrapper.dtype),
            type(wrapper.lock).__name__,
            type(wrapper.array).__name__,
        )
    if load:
        parts["values"] = attempt(lambda: np.asarray(var.values))
        parts["io"] = FS.take_log()
    return join(parts)


def describe_dataset(ds, load=True):
    parts = {
        "type": type(ds).__name__,
        "data_vars": list(ds.data_vars),
        "coords": list(ds.coords),
        "variables": list(ds.variables),
        "sizes": canon(dict(ds.sizes)),
        "attrs": canon(ds.attrs),
        "encoding": canon(ds.encoding),
        "indexes": list(ds.indexes),
    }
    for name in ds.variables:
        parts[f"var {name}"] = describe_variable(ds.variables[name], load=load)
    return join(parts)


def describe_tree(tree, load=True):
    parts = {"type": type(tree).__name__, "paths": [node.path for node in tree.subtree]}
    for node in tree.subtree:
        parts[f"node {node.path}"] = describe_dataset(node.to_dataset(inherit=False), load=load)
        parts[f"children {node.path}"] = list(node.children)
    return join(parts)


class Recorder:
    """counts locks and records the requested dask chunks"""

    def __enter__(self):
        self.locks = 0
        self.chunk_calls = []
        self.original_lock = cx.SerializableLock
        self.original_chunk = xr.Dataset.chunk
        recorder = self

        def counting_lock(*args, **kwargs):
            recorder.locks += 1
            return recorder.original_lock(*args, **kwargs)

        def recording_chunk(self, *args, **kwargs):
            recorder.chunk_calls.append((canon(args), canon(kwargs), list(self.variables)))
            return self

        cx.SerializableLock = counting_lock
        xr.Dataset.chunk = recording_chunk
        return self

    def __exit__(self, *exc_info):
        cx.SerializableLock = self.original_lock
        xr.Dataset.chunk = self.original_chunk
        return False

    def summary(self):
        return f"locks={self.locks} chunk_calls={self.chunk_calls!r}"


def leaf(name="e"):
    return Group(
        path=None,
        url=None,
        data={name: Variable(["x", "y"], np.arange(12).reshape(3, 4), {"b": "abc"})},
        attrs={"level": name},
    )


GROUPS = {
    "empty": lambda: Group(path=None, url=None, data={}, attrs={}),
    "attrs-only": lambda: Group(path=None, url=None, data={}, attrs={"a": 1, "b": [1, 2], "c": "x"}),
    "variables": lambda: Group(
        path=None,
        url=None,
        data={
            "b": Variable(["x", "y"], np.arange(12).reshape(3, 4), {"b": "abc"}),
            "a": Variable("x", np.array([1, 2, 3], dtype="int8"), {"a": 1}),
        },
        attrs={},
    ),
    "coords": lambda: Group(
        path=None,
        url=None,
        data={
            "c": Variable("x", np.array([1, 2, 3], dtype="int8"), {"a": 1}),
            "d": Variable(["x", "y"], np.arange(12).reshape(3, 4), {"b": "abc"}),
            "x": Variable("x", np.array([10, 20, 30]), {}),
        },
        attrs={"coordinates": ["d"], "other": 1},
    ),
    "coords-all": lambda: Group(
        path=None,
        url=None,
        data={"c": Variable("x", np.zeros(3), {}), "d": Variable("x", np.ones(3), {})},
        attrs={"coordinates": ["d", "c"]},
    ),
    "coords-empty": lambda: Group(
        path=None, url=None, data={"c": Variable("x", np.zeros(3), {})}, attrs={"coordinates": []}
    ),
    "coords-str": lambda: Group(
        path=None, url=None, data={"c": Variable("x", np.zeros(3), {})}, attrs={"coordinates": "c"}
    ),
    "coords-missing": lambda: Group(
        path=None, url=None, data={"c": Variable("x", np.zeros(3), {})}, attrs={"coordinates": ["nope"]}
    ),
    "coords-none": lambda: Group(
        path=None, url=None, data={"c": Variable("x", np.zeros(3), {})}, attrs={"coordinates": None}
    ),
    "lazy": lambda: Group(
        path=None,
        url=None,
        data={
            "data": Variable(["rows", "cols"], lazy((4, 6), 3), {"units": "dn"}),
            "other": Variable(["rows", "cols"], lazy((4, 6), 1, name="second"), {}),
            "rows": Variable("rows", np.arange(4) * 2.5, {}),
            "meta": Variable("rows", lazy((4,), 2), {}),
        },
        attrs={"coordinates": ["meta"], "title": "lazy"},
    ),
    "conflicting-sizes": lambda: Group(
        path=None,
        url=None,
        data={"a": Variable("x", np.zeros(3), {}), "b": Variable("x", np.zeros(4), {})},
        attrs={},
    ),
    "bad-variable": lambda: Group(
        path=None,
        url=None,
        data={"a": Variable("x", np.zeros(3), {}), "b": Variable("x", np.zeros((2, 2)), {})},
        attrs={},
    ),
    "nested": lambda: Group(
        path=None,
        url=None,
        data={
            "c": Variable("x", np.array([1, 2, 3], dtype="int8"), {"a": 1}),
            "d": leaf("e"),
            "b": Group(
                path=None,
                url=None,
                data={
                    "inner": leaf("f"),
                    "v": Variable("z", np.arange(2), {}),
                    "inner2": Group(path=None, url=None, data={"deep": leaf("g")}, attrs={"n": 2}),
                },
                attrs={"coordinates": ["v"]},
            ),
            "a": Variable("x", np.array([4, 5, 6], dtype="int8"), {}),
        },
        attrs={"coordinates": ["a"], "root": True},
    ),
    "nested-lazy": lambda: Group(
        path=None,
        url="s3://bucket/product",
        data={
            "imagery": Group(
                path=None,
                url=None,
                data={
                    "HH": Group(
                        path=None,
                        url=None,
                        data={"data": Variable(["rows", "cols"], lazy((4, 6), 2, name="hh"), {})},
                        attrs={"polarization": "HH"},
                    ),
                    "HV": Group(
                        path=None,
                        url=None,
                        data={"data": Variable(["rows", "cols"], lazy((4, 6), 4, name="hv"), {})},
                        attrs={"polarization": "HV"},
                    ),
                },
                attrs={},
            ),
            "overview": Variable(["rows", "cols"], lazy((4, 6), 1, name="overview"), {}),
        },
        attrs={"mission": "ALOS2"},
    ),
    "subgroup": lambda: GROUPS["nested"]()["b"],
    "leaf-subgroup": lambda: GROUPS["nested"]()["b"]["inner2"]["deep"],
    "relative-path": lambda: Group(
        path="rel", url=None, data={"v": Variable("x", np.zeros(2), {}), "g": leaf("h")}, attrs={"k": 1}
    ),
    "nested-bad-child": lambda: Group(
        path=None,
        url=None,
        data={
            "a": Variable("x", np.zeros(3), {}),
            "g": Group(path=None, url=None, data={"b": Variable("x", np.zeros((2, 2)), {})}, attrs={}),
        },
        attrs={},
    ),
    "nested-index-conflict": lambda: Group(
        path=None,
        url=None,
        data={
            "x": Variable("x", np.arange(3), {}),
            "g": Group(path=None, url=None, data={"x": Variable("x", np.arange(4), {})}, attrs={}),
        },
        attrs={"coordinates": ["x"]},
    ),
    "nested-bad-coords-child": lambda: Group(
        path=None,
        url=None,
        data={
            "a": Variable("x", np.zeros(3), {}),
            "g": Group(path=None, url=None, data={}, attrs={"coordinates": ["nope"]}),
        },
        attrs={},
    ),
    "not-a-group": lambda: types.SimpleNamespace(variables={}, attrs={}),
    "None": lambda: None,
}

CHUNKS = {
    "None": None,
    "{}": {},
    "x1y2": {"x": 1, "y": 2},
    "rows": {"rows": 2},
    "rows-cols-nope": {"cols": -1, "nope": 3, "rows": "auto"},
    "nope": {"nope": 3},
    "readonly": ReadOnlyChunks({"rows": 1, "x": 2, "q": 3}),
    "-1": -1,
    "'auto'": "auto",
    "0": 0,
    "list": [("x", 1)],
}


FULLY_CHUNKED = ("lazy", "nested", "coords", "None")


def convert(func, describe, make_group, chunks, passing):
    with Recorder() as recorder:
        try:
            group = make_group()
            attrs_before = canon(getattr(group, "attrs", None))
            if passing == "keyword":
                out = func(group, chunks=chunks)
            elif passing == "positional":
                out = func(group, chunks)
            else:
                out = func(group)
            described = describe(out)
            # conversion leaves the group alone
            described += f" attrs_untouched={attrs_before == canon(getattr(group, 'attrs', None))}"
        except Exception as e:  # noqa: BLE001
            described = canon(e)
    return f"{described} || {recorder.summary()} || io={FS.take_log()}"


def indexing_checks(results):
    """the lazily wrapped arrays as seen through xarray's indexing"""
    ds = cx.to_dataset(GROUPS["lazy"]())
    FS.take_log()
    selections = {
        "basic-int": lambda v: v[1, 2],
        "basic-slices": lambda v: v[1:3, ::2],
        "basic-negative-step": lambda v: v[::-1, ::-2],
        "basic-empty": lambda v: v[0:0, :],
        "outer-lists": lambda v: v.isel(rows=[3, 0], cols=[1, 1, 4]),
        "outer-array": lambda v: v.isel(rows=np.array([2, 2])),
        "vectorized": lambda v: v.isel(
            rows=xr.DataArray([0, 3, 1], dims="p"), cols=xr.DataArray([5, 0, 2], dims="p")
        ),
        "vectorized-2d": lambda v: v.isel(rows=xr.DataArray([[0, 1], [3, 2]], dims=["p", "q"])),
        "lazy-then-index": lambda v: v[1:][:, 2:][0],
        "transposed": lambda v: v.T[1:3],
        "out-of-bounds": lambda v: v[7, 0],
        "all": lambda v: v,
    }
    for vname in ("data", "other", "meta"):
        for sname, select in selections.items():
            if vname == "meta":
                if sname not in ("all", "out-of-bounds"):
                    continue
                value = attempt(lambda: np.asarray(ds[vname].variable[:3].values))
            else:
                value = attempt(lambda: np.asarray(select(ds[vname].variable).values))
            results[f"indexing {vname} {sname}"] = f"{value} || io={FS.take_log()}"


def collect():
    results = {}

    for name, make_var in ENCODING_VARS.items():
        results[f"extract_encoding {name}"] = attempt(lambda: cx.extract_encoding(make_var()))

    for name, make_var in VARIABLES.items():
        with Recorder() as recorder:
            try:
                var = make_var()
                out = cx.to_variable(var)
                described = describe_variable(out)
                if getattr(var, "attrs", None) is not None:
                    described += f" attrs_shared={out.attrs is var.attrs}"
                if isinstance(getattr(var, "data", None), Array):
                    described += f" same_array={out._data.array.array is var.data}"
            except Exception as e:  # noqa: BLE001
                described = canon(e)
        results[f"to_variable {name}"] = f"{described} || {recorder.summary()} || io={FS.take_log()}"
    results["to_variable kw"] = attempt(lambda: describe_variable(cx.to_variable(var=VARIABLES["lazy-2d"]())))
    FS.take_log()

    # two conversions of the same variable do not share a lock
    var = VARIABLES["lazy-2d"]()
    first, second = cx.to_variable(var), cx.to_variable(var)
    results["to_variable locks"] = repr(
        (first._data.array.lock is second._data.array.lock, first._data.array.array is second._data.array.array)
    )

    for gname, make_group in GROUPS.items():
        for cname, chunks in CHUNKS.items():
            if gname not in FULLY_CHUNKED and cname not in ("None", "rows", "x1y2", "-1"):
                continue
            for passing in ("keyword", "positional"):
                if passing == "positional" and cname not in ("None", "rows", "-1"):
                    continue
                key = f"{gname} chunks={cname} {passing}"
                results[f"to_dataset {key}"] = convert(
                    cx.to_dataset, describe_dataset, make_group, chunks, passing
                )
                results[f"to_datatree {key}"] = convert(
                    cx.to_datatree, describe_tree, make_group, chunks, passing
                )
        results[f"to_dataset {gname} default"] = convert(
            cx.to_dataset, describe_dataset, make_group, None, "default"
        )
        results[f"to_datatree {gname} default"] = convert(
            cx.to_datatree, describe_tree, make_group, None, "default"
        )

    indexing_checks(results)

    # the public entry point hands the opened group to to_datatree
    calls = []
    original_open = ceos_io.open

    def fake_open(*args, **kwargs):
        calls.append((args, kwargs))
        return GROUPS["nested-lazy"]()

    ceos_io.open = fake_open
    try:
        for cname in ("None", "rows", "{}"):
            options = {"records_per_chunk": 7, "use_cache": False}
            key = f"open_alos2 chunks={cname}"
            results[key] = convert(
                lambda group, chunks=None: cx.open_alos2(
                    "path/to/product", chunks=chunks, backend_options=options
                ),
                describe_tree,
                lambda: None,
                CHUNKS[cname],
                "keyword",
            )
        results["open_alos2 calls"] = repr(calls)
    finally:
        ceos_io.open = original_open

    return results


# recorded from the unchanged code (HEAD 405b008) with `python equiv.py --record`
EXPECTED = {'extract_encoding numpy-1d': 'dict{}',
 'extract_encoding numpy-2d': 'dict{}',
 'extract_encoding numpy-0d': 'dict{}',
 'extract_encoding list-data': 'dict{}',
 'extract_encoding lazy-1d': "dict{str:'preferred_chunksizes': dict{str:'x': int:2}}",
 'extract_encoding lazy-2d-1': "dict{str:'preferred_chunksizes': dict{str:'a': int:1, str:'b': int:3}}",
 'extract_encoding lazy-2d-all': "dict{str:'preferred_chunksizes': dict{str:'a': int:4, str:'b': int:3}}",
 'extract_encoding lazy-2d-big': "dict{str:'preferred_chunksizes': dict{str:'a': int:4, str:'b': int:3}}",
 'extract_encoding lazy-2d-none': "dict{str:'preferred_chunksizes': dict{str:'a': int:1024, str:'b': int:3}}",
 'extract_encoding lazy-2d-auto': "dict{str:'preferred_chunksizes': dict{str:'a': int64(4), str:'b': int:3}}",
 'extract_encoding lazy-2d-bytes': "dict{str:'preferred_chunksizes': dict{str:'a': int64(2), str:'b': "
                                   'int:3}}',
 'extract_encoding lazy-3d': "dict{str:'preferred_chunksizes': dict{str:'a': int:3, str:'b': int:3, str:'c': "
                             'int:2}}',
 'extract_encoding lazy-fewer-dims': "dict{str:'preferred_chunksizes': dict{str:'a': int:2}}",
 'extract_encoding lazy-more-dims': "dict{str:'preferred_chunksizes': dict{str:'a': int:2, str:'b': int:3}}",
 'extract_encoding lazy-same-dims': "dict{str:'preferred_chunksizes': dict{str:'a': int:3}}",
 'extract_encoding fake-empty': 'dict{}',
 'extract_encoding fake-all-none': 'dict{}',
 'extract_encoding fake-all-none-no-sizes': "raise builtins.AttributeError: 'NoneType' object has no "
                                            "attribute 'get'",
 'extract_encoding fake-first-none': "dict{str:'preferred_chunksizes': dict{str:'x': int:4, str:'y': int:2}}",
 'extract_encoding fake-last-none': "dict{str:'preferred_chunksizes': dict{str:'x': int:3, str:'y': int:5}}",
 'extract_encoding fake-minus-one': "dict{str:'preferred_chunksizes': dict{str:'x': int:4, str:'y': int:5}}",
 'extract_encoding fake-minus-one-float': "dict{str:'preferred_chunksizes': dict{str:'x': int:4, str:'y': "
                                          'float:2.5}}',
 'extract_encoding fake-np': "dict{str:'preferred_chunksizes': dict{str:'x': int64(4), str:'y': int64(2)}}",
 'extract_encoding fake-zero-false': "dict{str:'preferred_chunksizes': dict{str:'x': int:0, str:'y': "
                                     'bool:False}}',
 'extract_encoding fake-true': "dict{str:'preferred_chunksizes': dict{str:'x': bool:True, str:'y': int:-2}}",
 'extract_encoding fake-str': "dict{str:'preferred_chunksizes': dict{str:'x': str:'auto', str:'y': int:5}}",
 'extract_encoding fake-tuple': "dict{str:'preferred_chunksizes': dict{str:'x': tuple(int:2, int:2), "
                                "str:'y': int:5}}",
 'extract_encoding fake-missing-size': "raise builtins.KeyError: 'y'",
 'extract_encoding fake-missing-size-unused': "dict{str:'preferred_chunksizes': dict{str:'x': int:2, "
                                              "str:'y': int:3}}",
 'extract_encoding fake-sizes-none': "raise builtins.AttributeError: 'NoneType' object has no attribute "
                                     "'get'",
 'extract_encoding fake-order': "dict{str:'preferred_chunksizes': dict{str:'y': int:5, str:'x': int:2, "
                                "str:'z': int:6}}",
 'extract_encoding fake-readonly': "dict{str:'preferred_chunksizes': dict{str:'x': int:4, str:'y': int:7}}",
 'extract_encoding fake-chunks-none': "raise builtins.AttributeError: 'NoneType' object has no attribute "
                                      "'values'",
 'extract_encoding fake-chunks-list': "raise builtins.AttributeError: 'list' object has no attribute "
                                      "'values'",
 'extract_encoding fake-array-chunk': 'raise builtins.ValueError: The truth value of an array with more than '
                                      'one element is ambiguous. Use a.any() or a.all()',
 'extract_encoding no-chunks-attr': "raise builtins.AttributeError: 'types.SimpleNamespace' object has no "
                                    "attribute 'chunks'",
 'extract_encoding None': "raise builtins.AttributeError: 'NoneType' object has no attribute 'chunks'",
 'to_variable numpy-1d': "{type=Variable; dims=tuple(str:'x'); shape=tuple(int:2); dtype=dtype('int8'); "
                         "attrs=dict{str:'a': int:1}; encoding=dict{}; in_memory=True; data=['ndarray']; "
                         'values=ndarray[|i1(2,)][1, 2]; io=[]} attrs_shared=False || locks=0 chunk_calls=[] '
                         '|| io=[]',
 'to_variable numpy-2d': "{type=Variable; dims=tuple(str:'x', str:'y'); shape=tuple(int:3, int:4); "
                         "dtype=dtype('float64'); attrs=dict{str:'b': str:'abc', str:'c': list(int:1, "
                         "int:2)}; encoding=dict{}; in_memory=True; data=['ndarray']; values=ndarray[<f8(3, "
                         '4)][[0.0, 1.0, 2.0, 3.0], [4.0, 5.0, 6.0, 7.0], [8.0, 9.0, 10.0, 11.0]]; io=[]} '
                         'attrs_shared=False || locks=0 chunk_calls=[] || io=[]',
 'to_variable numpy-0d': "{type=Variable; dims=tuple(); shape=tuple(); dtype=dtype('float64'); attrs=dict{}; "
                         "encoding=dict{}; in_memory=True; data=['ndarray']; values=ndarray[<f8()]1.5; "
                         'io=[]} attrs_shared=False || locks=0 chunk_calls=[] || io=[]',
 'to_variable numpy-str': "{type=Variable; dims=tuple(str:'t'); shape=tuple(int:2); dtype=dtype('<U2'); "
                          "attrs=dict{}; encoding=dict{}; in_memory=True; data=['ndarray']; "
                          "values=ndarray[<U2(2,)]['a', 'bc']; io=[]} attrs_shared=False || locks=0 "
                          'chunk_calls=[] || io=[]',
 'to_variable numpy-datetime': "{type=Variable; dims=tuple(str:'t'); shape=tuple(int:2); "
                               "dtype=dtype('<M8[ns]'); attrs=dict{}; encoding=dict{}; in_memory=True; "
                               "data=['ndarray']; values=ndarray[<M8[ns](2,)][1577836800000000000, "
                               '1622505600000000000]; io=[]} attrs_shared=False || locks=0 chunk_calls=[] || '
                               'io=[]',
 'to_variable numpy-complex': "{type=Variable; dims=tuple(str:'t'); shape=tuple(int:1); "
                              "dtype=dtype('complex128'); attrs=dict{str:'units': str:'1'}; encoding=dict{}; "
                              "in_memory=True; data=['ndarray']; values=ndarray[<c16(1,)][(1+2j)]; io=[]} "
                              'attrs_shared=False || locks=0 chunk_calls=[] || io=[]',
 'to_variable list-data': "{type=Variable; dims=tuple(str:'x'); shape=tuple(int:3); dtype=dtype('int64'); "
                          "attrs=dict{}; encoding=dict{}; in_memory=True; data=['ndarray']; "
                          'values=ndarray[<i8(3,)][1, 2, 3]; io=[]} attrs_shared=False || locks=0 '
                          'chunk_calls=[] || io=[]',
 'to_variable scalar-data': "{type=Variable; dims=tuple(); shape=tuple(); dtype=dtype('int64'); "
                            "attrs=dict{}; encoding=dict{}; in_memory=True; data=['ndarray']; "
                            'values=ndarray[<i8()]4; io=[]} attrs_shared=False || locks=0 chunk_calls=[] || '
                            'io=[]',
 'to_variable tuple-dims': "{type=Variable; dims=tuple(str:'x', str:'y'); shape=tuple(int:2, int:2); "
                           "dtype=dtype('float64'); attrs=dict{}; encoding=dict{}; in_memory=True; "
                           "data=['ndarray']; values=ndarray[<f8(2, 2)][[0.0, 0.0], [0.0, 0.0]]; io=[]} "
                           'attrs_shared=False || locks=0 chunk_calls=[] || io=[]',
 'to_variable lazy-2d': "{type=Variable; dims=tuple(str:'rows', str:'cols'); shape=tuple(int:4, int:6); "
                        "dtype=dtype('uint16'); attrs=dict{str:'units': str:'dn'}; "
                        "encoding=dict{str:'preferred_chunksizes': dict{str:'rows': int:2, str:'cols': "
                        "int:6}}; in_memory=False; data=['LazilyIndexedArray', 'LazilyIndexedWrapper', "
                        '\'Array\']; wrapper=(\'tuple(int:4, int:6)\', "dtype(\'uint16\')", '
                        "'SerializableLock', 'Array'); values=ndarray[<u2(4, 6)][[0, 3, 6, 9, 12, 15], [18, "
                        '21, 24, 27, 30, 33], [36, 39, 42, 45, 48, 51], [54, 57, 60, 63, 66, 69]]; '
                        "io=[('open', ('file-4x6-2-uint16',), {'mode': 'rb'}), 'enter', ('seek', (16,), {}), "
                        "('read', (40,), {}), ('seek', (72,), {}), ('read', (40,), {}), 'exit']} "
                        'attrs_shared=False same_array=True || locks=1 chunk_calls=[] || io=[]',
 'to_variable lazy-2d-1': "{type=Variable; dims=tuple(str:'rows', str:'cols'); shape=tuple(int:5, int:3); "
                          "dtype=dtype('uint16'); attrs=dict{}; encoding=dict{str:'preferred_chunksizes': "
                          "dict{str:'rows': int:1, str:'cols': int:3}}; in_memory=False; "
                          "data=['LazilyIndexedArray', 'LazilyIndexedWrapper', 'Array']; "
                          'wrapper=(\'tuple(int:5, int:3)\', "dtype(\'uint16\')", \'SerializableLock\', '
                          "'Array'); values=ndarray[<u2(5, 3)][[0, 3, 6], [9, 12, 15], [18, 21, 24], [27, "
                          "30, 33], [36, 39, 42]]; io=[('open', ('file-5x3-1-uint16',), {'mode': 'rb'}), "
                          "'enter', ('seek', (16,), {}), ('read', (6,), {}), ('seek', (38,), {}), ('read', "
                          "(6,), {}), ('seek', (60,), {}), ('read', (6,), {}), ('seek', (82,), {}), ('read', "
                          "(6,), {}), ('seek', (104,), {}), ('read', (6,), {}), 'exit']} attrs_shared=False "
                          'same_array=True || locks=1 chunk_calls=[] || io=[]',
 'to_variable lazy-2d-all': "{type=Variable; dims=tuple(str:'rows', str:'cols'); shape=tuple(int:5, int:3); "
                            "dtype=dtype('uint16'); attrs=dict{}; encoding=dict{str:'preferred_chunksizes': "
                            "dict{str:'rows': int:5, str:'cols': int:3}}; in_memory=False; "
                            "data=['LazilyIndexedArray', 'LazilyIndexedWrapper', 'Array']; "
                            'wrapper=(\'tuple(int:5, int:3)\', "dtype(\'uint16\')", \'SerializableLock\', '
                            "'Array'); values=ndarray[<u2(5, 3)][[0, 3, 6], [9, 12, 15], [18, 21, 24], [27, "
                            "30, 33], [36, 39, 42]]; io=[('open', ('file-5x3--1-uint16',), {'mode': 'rb'}), "
                            "'enter', ('seek', (16,), {}), ('read', (94,), {}), 'exit']} attrs_shared=False "
                            'same_array=True || locks=1 chunk_calls=[] || io=[]',
 'to_variable lazy-2d-none': "{type=Variable; dims=tuple(str:'rows', str:'cols'); shape=tuple(int:5, int:3); "
                             "dtype=dtype('uint16'); attrs=dict{}; encoding=dict{str:'preferred_chunksizes': "
                             "dict{str:'rows': int:1024, str:'cols': int:3}}; in_memory=False; "
                             "data=['LazilyIndexedArray', 'LazilyIndexedWrapper', 'Array']; "
                             'wrapper=(\'tuple(int:5, int:3)\', "dtype(\'uint16\')", \'SerializableLock\', '
                             "'Array'); values=ndarray[<u2(5, 3)][[0, 3, 6], [9, 12, 15], [18, 21, 24], [27, "
                             "30, 33], [36, 39, 42]]; io=[('open', ('file-5x3-None-uint16',), {'mode': "
                             "'rb'}), 'enter', ('seek', (16,), {}), ('read', (94,), {}), 'exit']} "
                             'attrs_shared=False same_array=True || locks=1 chunk_calls=[] || io=[]',
 'to_variable lazy-2d-auto': "{type=Variable; dims=tuple(str:'rows', str:'cols'); shape=tuple(int:5, int:3); "
                             "dtype=dtype('uint16'); attrs=dict{}; encoding=dict{str:'preferred_chunksizes': "
                             "dict{str:'rows': int64(5), str:'cols': int:3}}; in_memory=False; "
                             "data=['LazilyIndexedArray', 'LazilyIndexedWrapper', 'Array']; "
                             'wrapper=(\'tuple(int:5, int:3)\', "dtype(\'uint16\')", \'SerializableLock\', '
                             "'Array'); values=ndarray[<u2(5, 3)][[0, 3, 6], [9, 12, 15], [18, 21, 24], [27, "
                             "30, 33], [36, 39, 42]]; io=[('open', ('file-5x3-auto-uint16',), {'mode': "
                             "'rb'}), 'enter', ('seek', (16,), {}), ('read', (94,), {}), 'exit']} "
                             'attrs_shared=False same_array=True || locks=1 chunk_calls=[] || io=[]',
 'to_variable lazy-1d': "{type=Variable; dims=tuple(str:'rows'); shape=tuple(int:4); dtype=dtype('uint16'); "
                        "attrs=dict{}; encoding=dict{str:'preferred_chunksizes': dict{str:'rows': int:3}}; "
                        "in_memory=False; data=['LazilyIndexedArray', 'LazilyIndexedWrapper', 'Array']; "
                        'wrapper=(\'tuple(int:4)\', "dtype(\'uint16\')", \'SerializableLock\', \'Array\'); '
                        "values=ndarray[<u2(4, 1)][[0], [3], [6], [9]]; io=[('open', ('file-4-3-uint16',), "
                        "{'mode': 'rb'}), 'enter', ('seek', (16,), {}), ('read', (38,), {}), ('seek', (70,), "
                        "{}), ('read', (2,), {}), 'exit']} attrs_shared=False same_array=True || locks=1 "
                        'chunk_calls=[] || io=[]',
 'to_variable lazy-float-dtype': "{type=Variable; dims=tuple(str:'rows', str:'cols'); shape=tuple(int:4, "
                                 "int:6); dtype=dtype('float32'); attrs=dict{}; "
                                 "encoding=dict{str:'preferred_chunksizes': dict{str:'rows': int:2, "
                                 "str:'cols': int:6}}; in_memory=False; data=['LazilyIndexedArray', "
                                 "'LazilyIndexedWrapper', 'Array']; wrapper=('tuple(int:4, int:6)', "
                                 '"dtype(\'float32\')", \'SerializableLock\', \'Array\'); '
                                 'values=ndarray[<u2(4, 6)][[0, 3, 6, 9, 12, 15], [18, 21, 24, 27, 30, 33], '
                                 "[36, 39, 42, 45, 48, 51], [54, 57, 60, 63, 66, 69]]; io=[('open', "
                                 "('file-4x6-2-float32',), {'mode': 'rb'}), 'enter', ('seek', (16,), {}), "
                                 "('read', (40,), {}), ('seek', (72,), {}), ('read', (40,), {}), 'exit']} "
                                 'attrs_shared=False same_array=True || locks=1 chunk_calls=[] || io=[]',
 'to_variable lazy-bad-type-code': "{type=Variable; dims=tuple(str:'rows', str:'cols'); shape=tuple(int:4, "
                                   "int:6); dtype=dtype('uint16'); attrs=dict{}; "
                                   "encoding=dict{str:'preferred_chunksizes': dict{str:'rows': int:2, "
                                   "str:'cols': int:6}}; in_memory=False; data=['LazilyIndexedArray', "
                                   "'LazilyIndexedWrapper', 'Array']; wrapper=('tuple(int:4, int:6)', "
                                   '"dtype(\'uint16\')", \'SerializableLock\', \'Array\'); values=raise '
                                   "builtins.ValueError: unknown type code: XX; io=[('open', "
                                   "('file-4x6-2-uint16',), {'mode': 'rb'}), 'enter', ('seek', (16,), {}), "
                                   "('read', (40,), {}), 'exit']} attrs_shared=False same_array=True || "
                                   'locks=1 chunk_calls=[] || io=[]',
 'to_variable dims-mismatch': "raise builtins.ValueError: dimensions ('x',) must have the same length as the "
                              'number of data dimensions, ndim=2 || locks=0 chunk_calls=[] || io=[]',
 'to_variable lazy-dims-mismatch': "raise builtins.ValueError: dimensions ('rows',) must have the same "
                                   'length as the number of data dimensions, ndim=2 || locks=1 '
                                   'chunk_calls=[] || io=[]',
 'to_variable attrs-none': "{type=Variable; dims=tuple(str:'x'); shape=tuple(int:2); dtype=dtype('float64'); "
                           "attrs=dict{}; encoding=dict{}; in_memory=True; data=['ndarray']; "
                           'values=ndarray[<f8(2,)][0.0, 0.0]; io=[]} || locks=0 chunk_calls=[] || io=[]',
 'to_variable attrs-list': "{type=Variable; dims=tuple(str:'x'); shape=tuple(int:2); dtype=dtype('float64'); "
                           "attrs=dict{str:'a': int:1}; encoding=dict{}; in_memory=True; data=['ndarray']; "
                           'values=ndarray[<f8(2,)][0.0, 0.0]; io=[]} attrs_shared=False || locks=0 '
                           'chunk_calls=[] || io=[]',
 'to_variable attrs-bad': "raise builtins.TypeError: 'int' object is not iterable || locks=0 chunk_calls=[] "
                          '|| io=[]',
 'to_variable fake-chunked-numpy': "{type=Variable; dims=tuple(str:'x', str:'y'); shape=tuple(int:4, int:5); "
                                   "dtype=dtype('float64'); attrs=dict{}; "
                                   "encoding=dict{str:'preferred_chunksizes': dict{str:'x': int:2, str:'y': "
                                   "int:5}}; in_memory=True; data=['ndarray']; values=ndarray[<f8(4, "
                                   '5)][[1.0, 1.0, 1.0, 1.0, 1.0], [1.0, 1.0, 1.0, 1.0, 1.0], [1.0, 1.0, '
                                   '1.0, 1.0, 1.0], [1.0, 1.0, 1.0, 1.0, 1.0]]; io=[]} attrs_shared=False || '
                                   'locks=0 chunk_calls=[] || io=[]',
 'to_variable fake-missing-size': "raise builtins.KeyError: 'y' || locks=0 chunk_calls=[] || io=[]",
 'to_variable fake-lazy': "{type=Variable; dims=tuple(str:'x', str:'y'); shape=tuple(int:4, int:6); "
                          "dtype=dtype('uint16'); attrs=dict{}; encoding=dict{str:'preferred_chunksizes': "
                          "dict{str:'x': int:4, str:'y': int:3}}; in_memory=False; "
                          "data=['LazilyIndexedArray', 'LazilyIndexedWrapper', 'Array']; "
                          'wrapper=(\'tuple(int:4, int:6)\', "dtype(\'uint16\')", \'SerializableLock\', '
                          "'Array'); values=ndarray[<u2(4, 6)][[0, 3, 6, 9, 12, 15], [18, 21, 24, 27, 30, "
                          "33], [36, 39, 42, 45, 48, 51], [54, 57, 60, 63, 66, 69]]; io=[('open', "
                          "('file-4x6-4-uint16',), {'mode': 'rb'}), 'enter', ('seek', (16,), {}), ('read', "
                          "(96,), {}), 'exit']} attrs_shared=False same_array=True || locks=1 chunk_calls=[] "
                          '|| io=[]',
 'to_variable no-data': "raise builtins.AttributeError: 'types.SimpleNamespace' object has no attribute "
                        "'data' || locks=0 chunk_calls=[] || io=[]",
 'to_variable no-dims': "raise builtins.AttributeError: 'types.SimpleNamespace' object has no attribute "
                        "'dims' || locks=0 chunk_calls=[] || io=[]",
 'to_variable no-dims-no-chunks': "raise builtins.AttributeError: 'types.SimpleNamespace' object has no "
                                  "attribute 'dims' || locks=0 chunk_calls=[] || io=[]",
 'to_variable no-attrs-no-chunks': "raise builtins.AttributeError: 'types.SimpleNamespace' object has no "
                                   "attribute 'attrs' || locks=0 chunk_calls=[] || io=[]",
 'to_variable None': "raise builtins.AttributeError: 'NoneType' object has no attribute 'data' || locks=0 "
                     'chunk_calls=[] || io=[]',
 'to_variable kw': "str:'{type=Variable; dims=tuple(str:\\'rows\\', str:\\'cols\\'); shape=tuple(int:4, "
                   "int:6); dtype=dtype(\\'uint16\\'); attrs=dict{str:\\'units\\': str:\\'dn\\'}; "
                   "encoding=dict{str:\\'preferred_chunksizes\\': dict{str:\\'rows\\': int:2, "
                   "str:\\'cols\\': int:6}}; in_memory=False; data=[\\'LazilyIndexedArray\\', "
                   "\\'LazilyIndexedWrapper\\', \\'Array\\']; wrapper=(\\'tuple(int:4, int:6)\\', "
                   '"dtype(\\\'uint16\\\')", \\\'SerializableLock\\\', \\\'Array\\\'); values=ndarray[<u2(4, '
                   '6)][[0, 3, 6, 9, 12, 15], [18, 21, 24, 27, 30, 33], [36, 39, 42, 45, 48, 51], [54, 57, '
                   "60, 63, 66, 69]]; io=[(\\'open\\', (\\'file-4x6-2-uint16\\',), {\\'mode\\': \\'rb\\'}), "
                   "\\'enter\\', (\\'seek\\', (16,), {}), (\\'read\\', (40,), {}), (\\'seek\\', (72,), {}), "
                   "(\\'read\\', (40,), {}), \\'exit\\']}'",
 'to_variable locks': '(False, True)',
 'to_dataset empty chunks=None keyword': '{type=Dataset; data_vars=[]; coords=[]; variables=[]; '
                                         'sizes=dict{}; attrs=dict{}; encoding=dict{}; indexes=[]} '
                                         'attrs_untouched=True || locks=0 chunk_calls=[] || io=[]',
 'to_datatree empty chunks=None keyword': "{type=DataTree; paths=['/']; node /={type=Dataset; data_vars=[]; "
                                          'coords=[]; variables=[]; sizes=dict{}; attrs=dict{}; '
                                          'encoding=dict{}; indexes=[]}; children /=[]} attrs_untouched=True '
                                          '|| locks=0 chunk_calls=[] || io=[]',
 'to_dataset empty chunks=None positional': '{type=Dataset; data_vars=[]; coords=[]; variables=[]; '
                                            'sizes=dict{}; attrs=dict{}; encoding=dict{}; indexes=[]} '
                                            'attrs_untouched=True || locks=0 chunk_calls=[] || io=[]',
 'to_datatree empty chunks=None positional': "{type=DataTree; paths=['/']; node /={type=Dataset; "
                                             'data_vars=[]; coords=[]; variables=[]; sizes=dict{}; '
                                             'attrs=dict{}; encoding=dict{}; indexes=[]}; children /=[]} '
                                             'attrs_untouched=True || locks=0 chunk_calls=[] || io=[]',
 'to_dataset empty chunks=x1y2 keyword': '{type=Dataset; data_vars=[]; coords=[]; variables=[]; '
                                         'sizes=dict{}; attrs=dict{}; encoding=dict{}; indexes=[]} '
                                         "attrs_untouched=True || locks=0 chunk_calls=[('tuple(dict{})', "
                                         "'dict{}', [])] || io=[]",
 'to_datatree empty chunks=x1y2 keyword': "{type=DataTree; paths=['/']; node /={type=Dataset; data_vars=[]; "
                                          'coords=[]; variables=[]; sizes=dict{}; attrs=dict{}; '
                                          'encoding=dict{}; indexes=[]}; children /=[]} attrs_untouched=True '
                                          "|| locks=0 chunk_calls=[('tuple(dict{})', 'dict{}', []), "
                                          "('tuple(dict{})', 'dict{}', [])] || io=[]",
 'to_dataset empty chunks=rows keyword': '{type=Dataset; data_vars=[]; coords=[]; variables=[]; '
                                         'sizes=dict{}; attrs=dict{}; encoding=dict{}; indexes=[]} '
                                         "attrs_untouched=True || locks=0 chunk_calls=[('tuple(dict{})', "
                                         "'dict{}', [])] || io=[]",
 'to_datatree empty chunks=rows keyword': "{type=DataTree; paths=['/']; node /={type=Dataset; data_vars=[]; "
                                          'coords=[]; variables=[]; sizes=dict{}; attrs=dict{}; '
                                          'encoding=dict{}; indexes=[]}; children /=[]} attrs_untouched=True '
                                          "|| locks=0 chunk_calls=[('tuple(dict{})', 'dict{}', []), "
                                          "('tuple(dict{})', 'dict{}', [])] || io=[]",
 'to_dataset empty chunks=rows positional': '{type=Dataset; data_vars=[]; coords=[]; variables=[]; '
                                            'sizes=dict{}; attrs=dict{}; encoding=dict{}; indexes=[]} '
                                            "attrs_untouched=True || locks=0 chunk_calls=[('tuple(dict{})', "
                                            "'dict{}', [])] || io=[]",
 'to_datatree empty chunks=rows positional': "{type=DataTree; paths=['/']; node /={type=Dataset; "
                                             'data_vars=[]; coords=[]; variables=[]; sizes=dict{}; '
                                             'attrs=dict{}; encoding=dict{}; indexes=[]}; children /=[]} '
                                             "attrs_untouched=True || locks=0 chunk_calls=[('tuple(dict{})', "
                                             "'dict{}', []), ('tuple(dict{})', 'dict{}', [])] || io=[]",
 'to_dataset empty chunks=-1 keyword': "raise builtins.AttributeError: 'int' object has no attribute 'items' "
                                       '|| locks=0 chunk_calls=[] || io=[]',
 'to_datatree empty chunks=-1 keyword': "raise builtins.AttributeError: 'int' object has no attribute "
                                        "'items' || locks=0 chunk_calls=[] || io=[]",
 'to_dataset empty chunks=-1 positional': "raise builtins.AttributeError: 'int' object has no attribute "
                                          "'items' || locks=0 chunk_calls=[] || io=[]",
 'to_datatree empty chunks=-1 positional': "raise builtins.AttributeError: 'int' object has no attribute "
                                           "'items' || locks=0 chunk_calls=[] || io=[]",
 'to_dataset empty default': '{type=Dataset; data_vars=[]; coords=[]; variables=[]; sizes=dict{}; '
                             'attrs=dict{}; encoding=dict{}; indexes=[]} attrs_untouched=True || locks=0 '
                             'chunk_calls=[] || io=[]',
 'to_datatree empty default': "{type=DataTree; paths=['/']; node /={type=Dataset; data_vars=[]; coords=[]; "
                              'variables=[]; sizes=dict{}; attrs=dict{}; encoding=dict{}; indexes=[]}; '
                              'children /=[]} attrs_untouched=True || locks=0 chunk_calls=[] || io=[]',
 'to_dataset attrs-only chunks=None keyword': '{type=Dataset; data_vars=[]; coords=[]; variables=[]; '
                                              "sizes=dict{}; attrs=dict{str:'a': int:1, str:'b': list(int:1, "
                                              "int:2), str:'c': str:'x'}; encoding=dict{}; indexes=[]} "
                                              'attrs_untouched=True || locks=0 chunk_calls=[] || io=[]',
 'to_datatree attrs-only chunks=None keyword': "{type=DataTree; paths=['/']; node /={type=Dataset; "
                                               'data_vars=[]; coords=[]; variables=[]; sizes=dict{}; '
                                               "attrs=dict{str:'a': int:1, str:'b': list(int:1, int:2), "
                                               "str:'c': str:'x'}; encoding=dict{}; indexes=[]}; children "
                                               '/=[]} attrs_untouched=True || locks=0 chunk_calls=[] || '
                                               'io=[]',
 'to_dataset attrs-only chunks=None positional': '{type=Dataset; data_vars=[]; coords=[]; variables=[]; '
                                                 "sizes=dict{}; attrs=dict{str:'a': int:1, str:'b': "
                                                 "list(int:1, int:2), str:'c': str:'x'}; encoding=dict{}; "
                                                 'indexes=[]} attrs_untouched=True || locks=0 chunk_calls=[] '
                                                 '|| io=[]',
 'to_datatree attrs-only chunks=None positional': "{type=DataTree; paths=['/']; node /={type=Dataset; "
                                                  'data_vars=[]; coords=[]; variables=[]; sizes=dict{}; '
                                                  "attrs=dict{str:'a': int:1, str:'b': list(int:1, int:2), "
                                                  "str:'c': str:'x'}; encoding=dict{}; indexes=[]}; children "
                                                  '/=[]} attrs_untouched=True || locks=0 chunk_calls=[] || '
                                                  'io=[]',
 'to_dataset attrs-only chunks=x1y2 keyword': '{type=Dataset; data_vars=[]; coords=[]; variables=[]; '
                                              "sizes=dict{}; attrs=dict{str:'a': int:1, str:'b': list(int:1, "
                                              "int:2), str:'c': str:'x'}; encoding=dict{}; indexes=[]} "
                                              'attrs_untouched=True || locks=0 '
                                              "chunk_calls=[('tuple(dict{})', 'dict{}', [])] || io=[]",
 'to_datatree attrs-only chunks=x1y2 keyword': "{type=DataTree; paths=['/']; node /={type=Dataset; "
                                               'data_vars=[]; coords=[]; variables=[]; sizes=dict{}; '
                                               "attrs=dict{str:'a': int:1, str:'b': list(int:1, int:2), "
                                               "str:'c': str:'x'}; encoding=dict{}; indexes=[]}; children "
                                               '/=[]} attrs_untouched=True || locks=0 '
                                               "chunk_calls=[('tuple(dict{})', 'dict{}', []), "
                                               "('tuple(dict{})', 'dict{}', [])] || io=[]",
 'to_dataset attrs-only chunks=rows keyword': '{type=Dataset; data_vars=[]; coords=[]; variables=[]; '
                                              "sizes=dict{}; attrs=dict{str:'a': int:1, str:'b': list(int:1, "
                                              "int:2), str:'c': str:'x'}; encoding=dict{}; indexes=[]} "
                                              'attrs_untouched=True || locks=0 '
                                              "chunk_calls=[('tuple(dict{})', 'dict{}', [])] || io=[]",
 'to_datatree attrs-only chunks=rows keyword': "{type=DataTree; paths=['/']; node /={type=Dataset; "
                                               'data_vars=[]; coords=[]; variables=[]; sizes=dict{}; '
                                               "attrs=dict{str:'a': int:1, str:'b': list(int:1, int:2), "
                                               "str:'c': str:'x'}; encoding=dict{}; indexes=[]}; children "
                                               '/=[]} attrs_untouched=True || locks=0 '
                                               "chunk_calls=[('tuple(dict{})', 'dict{}', []), "
                                               "('tuple(dict{})', 'dict{}', [])] || io=[]",
 'to_dataset attrs-only chunks=rows positional': '{type=Dataset; data_vars=[]; coords=[]; variables=[]; '
                                                 "sizes=dict{}; attrs=dict{str:'a': int:1, str:'b': "
                                                 "list(int:1, int:2), str:'c': str:'x'}; encoding=dict{}; "
                                                 'indexes=[]} attrs_untouched=True || locks=0 '
                                                 "chunk_calls=[('tuple(dict{})', 'dict{}', [])] || io=[]",
 'to_datatree attrs-only chunks=rows positional': "{type=DataTree; paths=['/']; node /={type=Dataset; "
                                                  'data_vars=[]; coords=[]; variables=[]; sizes=dict{}; '
                                                  "attrs=dict{str:'a': int:1, str:'b': list(int:1, int:2), "
                                                  "str:'c': str:'x'}; encoding=dict{}; indexes=[]}; children "
                                                  '/=[]} attrs_untouched=True || locks=0 '
                                                  "chunk_calls=[('tuple(dict{})', 'dict{}', []), "
                                                  "('tuple(dict{})', 'dict{}', [])] || io=[]",
 'to_dataset attrs-only chunks=-1 keyword': "raise builtins.AttributeError: 'int' object has no attribute "
                                            "'items' || locks=0 chunk_calls=[] || io=[]",
 'to_datatree attrs-only chunks=-1 keyword': "raise builtins.AttributeError: 'int' object has no attribute "
                                             "'items' || locks=0 chunk_calls=[] || io=[]",
 'to_dataset attrs-only chunks=-1 positional': "raise builtins.AttributeError: 'int' object has no attribute "
                                               "'items' || locks=0 chunk_calls=[] || io=[]",
 'to_datatree attrs-only chunks=-1 positional': "raise builtins.AttributeError: 'int' object has no "
                                                "attribute 'items' || locks=0 chunk_calls=[] || io=[]",
 'to_dataset attrs-only default': '{type=Dataset; data_vars=[]; coords=[]; variables=[]; sizes=dict{}; '
                                  "attrs=dict{str:'a': int:1, str:'b': list(int:1, int:2), str:'c': "
                                  "str:'x'}; encoding=dict{}; indexes=[]} attrs_untouched=True || locks=0 "
                                  'chunk_calls=[] || io=[]',
 'to_datatree attrs-only default': "{type=DataTree; paths=['/']; node /={type=Dataset; data_vars=[]; "
                                   "coords=[]; variables=[]; sizes=dict{}; attrs=dict{str:'a': int:1, "
                                   "str:'b': list(int:1, int:2), str:'c': str:'x'}; encoding=dict{}; "
                                   'indexes=[]}; children /=[]} attrs_untouched=True || locks=0 '
                                   'chunk_calls=[] || io=[]',
 'to_dataset variables chunks=None keyword': "{type=Dataset; data_vars=['b', 'a']; coords=[]; "
                                             "variables=['b', 'a']; sizes=dict{str:'x': int:3, str:'y': "
                                             'int:4}; attrs=dict{}; encoding=dict{}; indexes=[]; var '
                                             "b={type=Variable; dims=tuple(str:'x', str:'y'); "
                                             "shape=tuple(int:3, int:4); dtype=dtype('int64'); "
                                             "attrs=dict{str:'b': str:'abc'}; encoding=dict{}; "
                                             "in_memory=True; data=['ndarray']; values=ndarray[<i8(3, "
                                             '4)][[0, 1, 2, 3], [4, 5, 6, 7], [8, 9, 10, 11]]; io=[]}; var '
                                             "a={type=Variable; dims=tuple(str:'x'); shape=tuple(int:3); "
                                             "dtype=dtype('int8'); attrs=dict{str:'a': int:1}; "
                                             "encoding=dict{}; in_memory=True; data=['ndarray']; "
                                             'values=ndarray[|i1(3,)][1, 2, 3]; io=[]}} attrs_untouched=True '
                                             '|| locks=0 chunk_calls=[] || io=[]',
 'to_datatree variables chunks=None keyword': "{type=DataTree; paths=['/']; node /={type=Dataset; "
                                              "data_vars=['b', 'a']; coords=[]; variables=['b', 'a']; "
                                              "sizes=dict{str:'x': int:3, str:'y': int:4}; attrs=dict{}; "
                                              'encoding=dict{}; indexes=[]; var b={type=Variable; '
                                              "dims=tuple(str:'x', str:'y'); shape=tuple(int:3, int:4); "
                                              "dtype=dtype('int64'); attrs=dict{str:'b': str:'abc'}; "
                                              "encoding=dict{}; in_memory=True; data=['ndarray']; "
                                              'values=ndarray[<i8(3, 4)][[0, 1, 2, 3], [4, 5, 6, 7], [8, 9, '
                                              "10, 11]]; io=[]}; var a={type=Variable; dims=tuple(str:'x'); "
                                              "shape=tuple(int:3); dtype=dtype('int8'); attrs=dict{str:'a': "
                                              "int:1}; encoding=dict{}; in_memory=True; data=['ndarray']; "
                                              'values=ndarray[|i1(3,)][1, 2, 3]; io=[]}}; children /=[]} '
                                              'attrs_untouched=True || locks=0 chunk_calls=[] || io=[]',
 'to_dataset variables chunks=None positional': "{type=Dataset; data_vars=['b', 'a']; coords=[]; "
                                                "variables=['b', 'a']; sizes=dict{str:'x': int:3, str:'y': "
                                                'int:4}; attrs=dict{}; encoding=dict{}; indexes=[]; var '
                                                "b={type=Variable; dims=tuple(str:'x', str:'y'); "
                                                "shape=tuple(int:3, int:4); dtype=dtype('int64'); "
                                                "attrs=dict{str:'b': str:'abc'}; encoding=dict{}; "
                                                "in_memory=True; data=['ndarray']; values=ndarray[<i8(3, "
                                                '4)][[0, 1, 2, 3], [4, 5, 6, 7], [8, 9, 10, 11]]; io=[]}; '
                                                "var a={type=Variable; dims=tuple(str:'x'); "
                                                "shape=tuple(int:3); dtype=dtype('int8'); "
                                                "attrs=dict{str:'a': int:1}; encoding=dict{}; "
                                                "in_memory=True; data=['ndarray']; "
                                                'values=ndarray[|i1(3,)][1, 2, 3]; io=[]}} '
                                                'attrs_untouched=True || locks=0 chunk_calls=[] || io=[]',
 'to_datatree variables chunks=None positional': "{type=DataTree; paths=['/']; node /={type=Dataset; "
                                                 "data_vars=['b', 'a']; coords=[]; variables=['b', 'a']; "
                                                 "sizes=dict{str:'x': int:3, str:'y': int:4}; attrs=dict{}; "
                                                 'encoding=dict{}; indexes=[]; var b={type=Variable; '
                                                 "dims=tuple(str:'x', str:'y'); shape=tuple(int:3, int:4); "
                                                 "dtype=dtype('int64'); attrs=dict{str:'b': str:'abc'}; "
                                                 "encoding=dict{}; in_memory=True; data=['ndarray']; "
                                                 'values=ndarray[<i8(3, 4)][[0, 1, 2, 3], [4, 5, 6, 7], [8, '
                                                 '9, 10, 11]]; io=[]}; var a={type=Variable; '
                                                 "dims=tuple(str:'x'); shape=tuple(int:3); "
                                                 "dtype=dtype('int8'); attrs=dict{str:'a': int:1}; "
                                                 "encoding=dict{}; in_memory=True; data=['ndarray']; "
                                                 'values=ndarray[|i1(3,)][1, 2, 3]; io=[]}}; children /=[]} '
                                                 'attrs_untouched=True || locks=0 chunk_calls=[] || io=[]',
 'to_dataset variables chunks=x1y2 keyword': "{type=Dataset; data_vars=['b', 'a']; coords=[]; "
                                             "variables=['b', 'a']; sizes=dict{str:'x': int:3, str:'y': "
                                             'int:4}; attrs=dict{}; encoding=dict{}; indexes=[]; var '
                                             "b={type=Variable; dims=tuple(str:'x', str:'y'); "
                                             "shape=tuple(int:3, int:4); dtype=dtype('int64'); "
                                             "attrs=dict{str:'b': str:'abc'}; encoding=dict{}; "
                                             "in_memory=True; data=['ndarray']; values=ndarray[<i8(3, "
                                             '4)][[0, 1, 2, 3], [4, 5, 6, 7], [8, 9, 10, 11]]; io=[]}; var '
                                             "a={type=Variable; dims=tuple(str:'x'); shape=tuple(int:3); "
                                             "dtype=dtype('int8'); attrs=dict{str:'a': int:1}; "
                                             "encoding=dict{}; in_memory=True; data=['ndarray']; "
                                             'values=ndarray[|i1(3,)][1, 2, 3]; io=[]}} attrs_untouched=True '
                                             '|| locks=0 chunk_calls=[("tuple(dict{str:\'x\': int:1, '
                                             'str:\'y\': int:2})", \'dict{}\', [\'b\', \'a\'])] || io=[]',
 'to_datatree variables chunks=x1y2 keyword': "{type=DataTree; paths=['/']; node /={type=Dataset; "
                                              "data_vars=['b', 'a']; coords=[]; variables=['b', 'a']; "
                                              "sizes=dict{str:'x': int:3, str:'y': int:4}; attrs=dict{}; "
                                              'encoding=dict{}; indexes=[]; var b={type=Variable; '
                                              "dims=tuple(str:'x', str:'y'); shape=tuple(int:3, int:4); "
                                              "dtype=dtype('int64'); attrs=dict{str:'b': str:'abc'}; "
                                              "encoding=dict{}; in_memory=True; data=['ndarray']; "
                                              'values=ndarray[<i8(3, 4)][[0, 1, 2, 3], [4, 5, 6, 7], [8, 9, '
                                              "10, 11]]; io=[]}; var a={type=Variable; dims=tuple(str:'x'); "
                                              "shape=tuple(int:3); dtype=dtype('int8'); attrs=dict{str:'a': "
                                              "int:1}; encoding=dict{}; in_memory=True; data=['ndarray']; "
                                              'values=ndarray[|i1(3,)][1, 2, 3]; io=[]}}; children /=[]} '
                                              'attrs_untouched=True || locks=0 '
                                              'chunk_calls=[("tuple(dict{str:\'x\': int:1, str:\'y\': '
                                              'int:2})", \'dict{}\', [\'b\', \'a\']), '
                                              '("tuple(dict{str:\'x\': int:1, str:\'y\': int:2})", '
                                              "'dict{}', ['b', 'a'])] || io=[]",
 'to_dataset variables chunks=rows keyword': "{type=Dataset; data_vars=['b', 'a']; coords=[]; "
                                             "variables=['b', 'a']; sizes=dict{str:'x': int:3, str:'y': "
                                             'int:4}; attrs=dict{}; encoding=dict{}; indexes=[]; var '
                                             "b={type=Variable; dims=tuple(str:'x', str:'y'); "
                                             "shape=tuple(int:3, int:4); dtype=dtype('int64'); "
                                             "attrs=dict{str:'b': str:'abc'}; encoding=dict{}; "
                                             "in_memory=True; data=['ndarray']; values=ndarray[<i8(3, "
                                             '4)][[0, 1, 2, 3], [4, 5, 6, 7], [8, 9, 10, 11]]; io=[]}; var '
                                             "a={type=Variable; dims=tuple(str:'x'); shape=tuple(int:3); "
                                             "dtype=dtype('int8'); attrs=dict{str:'a': int:1}; "
                                             "encoding=dict{}; in_memory=True; data=['ndarray']; "
                                             'values=ndarray[|i1(3,)][1, 2, 3]; io=[]}} attrs_untouched=True '
                                             "|| locks=0 chunk_calls=[('tuple(dict{})', 'dict{}', ['b', "
                                             "'a'])] || io=[]",
 'to_datatree variables chunks=rows keyword': "{type=DataTree; paths=['/']; node /={type=Dataset; "
                                              "data_vars=['b', 'a']; coords=[]; variables=['b', 'a']; "
                                              "sizes=dict{str:'x': int:3, str:'y': int:4}; attrs=dict{}; "
                                              'encoding=dict{}; indexes=[]; var b={type=Variable; '
                                              "dims=tuple(str:'x', str:'y'); shape=tuple(int:3, int:4); "
                                              "dtype=dtype('int64'); attrs=dict{str:'b': str:'abc'}; "
                                              "encoding=dict{}; in_memory=True; data=['ndarray']; "
                                              'values=ndarray[<i8(3, 4)][[0, 1, 2, 3], [4, 5, 6, 7], [8, 9, '
                                              "10, 11]]; io=[]}; var a={type=Variable; dims=tuple(str:'x'); "
                                              "shape=tuple(int:3); dtype=dtype('int8'); attrs=dict{str:'a': "
                                              "int:1}; encoding=dict{}; in_memory=True; data=['ndarray']; "
                                              'values=ndarray[|i1(3,)][1, 2, 3]; io=[]}}; children /=[]} '
                                              'attrs_untouched=True || locks=0 '
                                              "chunk_calls=[('tuple(dict{})', 'dict{}', ['b', 'a']), "
                                              "('tuple(dict{})', 'dict{}', ['b', 'a'])] || io=[]",
 'to_dataset variables chunks=rows positional': "{type=Dataset; data_vars=['b', 'a']; coords=[]; "
                                                "variables=['b', 'a']; sizes=dict{str:'x': int:3, str:'y': "
                                                'int:4}; attrs=dict{}; encoding=dict{}; indexes=[]; var '
                                                "b={type=Variable; dims=tuple(str:'x', str:'y'); "
                                                "shape=tuple(int:3, int:4); dtype=dtype('int64'); "
                                                "attrs=dict{str:'b': str:'abc'}; encoding=dict{}; "
                                                "in_memory=True; data=['ndarray']; values=ndarray[<i8(3, "
                                                '4)][[0, 1, 2, 3], [4, 5, 6, 7], [8, 9, 10, 11]]; io=[]}; '
                                                "var a={type=Variable; dims=tuple(str:'x'); "
                                                "shape=tuple(int:3); dtype=dtype('int8'); "
                                                "attrs=dict{str:'a': int:1}; encoding=dict{}; "
                                                "in_memory=True; data=['ndarray']; "
                                                'values=ndarray[|i1(3,)][1, 2, 3]; io=[]}} '
                                                'attrs_untouched=True || locks=0 '
                                                "chunk_calls=[('tuple(dict{})', 'dict{}', ['b', 'a'])] || "
                                                'io=[]',
 'to_datatree variables chunks=rows positional': "{type=DataTree; paths=['/']; node /={type=Dataset; "
                                                 "data_vars=['b', 'a']; coords=[]; variables=['b', 'a']; "
                                                 "sizes=dict{str:'x': int:3, str:'y': int:4}; attrs=dict{}; "
                                                 'encoding=dict{}; indexes=[]; var b={type=Variable; '
                                                 "dims=tuple(str:'x', str:'y'); shape=tuple(int:3, int:4); "
                                                 "dtype=dtype('int64'); attrs=dict{str:'b': str:'abc'}; "
                                                 "encoding=dict{}; in_memory=True; data=['ndarray']; "
                                                 'values=ndarray[<i8(3, 4)][[0, 1, 2, 3], [4, 5, 6, 7], [8, '
                                                 '9, 10, 11]]; io=[]}; var a={type=Variable; '
                                                 "dims=tuple(str:'x'); shape=tuple(int:3); "
                                                 "dtype=dtype('int8'); attrs=dict{str:'a': int:1}; "
                                                 "encoding=dict{}; in_memory=True; data=['ndarray']; "
                                                 'values=ndarray[|i1(3,)][1, 2, 3]; io=[]}}; children /=[]} '
                                                 'attrs_untouched=True || locks=0 '
                                                 "chunk_calls=[('tuple(dict{})', 'dict{}', ['b', 'a']), "
                                                 "('tuple(dict{})', 'dict{}', ['b', 'a'])] || io=[]",
 'to_dataset variables chunks=-1 keyword': "raise builtins.AttributeError: 'int' object has no attribute "
                                           "'items' || locks=0 chunk_calls=[] || io=[]",
 'to_datatree variables chunks=-1 keyword': "raise builtins.AttributeError: 'int' object has no attribute "
                                            "'items' || locks=0 chunk_calls=[] || io=[]",
 'to_dataset variables chunks=-1 positional': "raise builtins.AttributeError: 'int' object has no attribute "
                                              "'items' || locks=0 chunk_calls=[] || io=[]",
 'to_datatree variables chunks=-1 positional': "raise builtins.AttributeError: 'int' object has no attribute "
                                               "'items' || locks=0 chunk_calls=[] || io=[]",
 'to_dataset variables default': "{type=Dataset; data_vars=['b', 'a']; coords=[]; variables=['b', 'a']; "
                                 "sizes=dict{str:'x': int:3, str:'y': int:4}; attrs=dict{}; encoding=dict{}; "
                                 "indexes=[]; var b={type=Variable; dims=tuple(str:'x', str:'y'); "
                                 "shape=tuple(int:3, int:4); dtype=dtype('int64'); attrs=dict{str:'b': "
                                 "str:'abc'}; encoding=dict{}; in_memory=True; data=['ndarray']; "
                                 'values=ndarray[<i8(3, 4)][[0, 1, 2, 3], [4, 5, 6, 7], [8, 9, 10, 11]]; '
                                 "io=[]}; var a={type=Variable; dims=tuple(str:'x'); shape=tuple(int:3); "
                                 "dtype=dtype('int8'); attrs=dict{str:'a': int:1}; encoding=dict{}; "
                                 "in_memory=True; data=['ndarray']; values=ndarray[|i1(3,)][1, 2, 3]; "
                                 'io=[]}} attrs_untouched=True || locks=0 chunk_calls=[] || io=[]',
 'to_datatree variables default': "{type=DataTree; paths=['/']; node /={type=Dataset; data_vars=['b', 'a']; "
                                  "coords=[]; variables=['b', 'a']; sizes=dict{str:'x': int:3, str:'y': "
                                  'int:4}; attrs=dict{}; encoding=dict{}; indexes=[]; var b={type=Variable; '
                                  "dims=tuple(str:'x', str:'y'); shape=tuple(int:3, int:4); "
                                  "dtype=dtype('int64'); attrs=dict{str:'b': str:'abc'}; encoding=dict{}; "
                                  "in_memory=True; data=['ndarray']; values=ndarray[<i8(3, 4)][[0, 1, 2, 3], "
                                  '[4, 5, 6, 7], [8, 9, 10, 11]]; io=[]}; var a={type=Variable; '
                                  "dims=tuple(str:'x'); shape=tuple(int:3); dtype=dtype('int8'); "
                                  "attrs=dict{str:'a': int:1}; encoding=dict{}; in_memory=True; "
                                  "data=['ndarray']; values=ndarray[|i1(3,)][1, 2, 3]; io=[]}}; children "
                                  '/=[]} attrs_untouched=True || locks=0 chunk_calls=[] || io=[]',
 'to_dataset coords chunks=None keyword': "{type=Dataset; data_vars=['c']; coords=['d', 'x']; "
                                          "variables=['c', 'd', 'x']; sizes=dict{str:'x': int:3, str:'y': "
                                          "int:4}; attrs=dict{str:'other': int:1}; encoding=dict{}; "
                                          "indexes=['x']; var c={type=Variable; dims=tuple(str:'x'); "
                                          "shape=tuple(int:3); dtype=dtype('int8'); attrs=dict{str:'a': "
                                          "int:1}; encoding=dict{}; in_memory=True; data=['ndarray']; "
                                          'values=ndarray[|i1(3,)][1, 2, 3]; io=[]}; var d={type=Variable; '
                                          "dims=tuple(str:'x', str:'y'); shape=tuple(int:3, int:4); "
                                          "dtype=dtype('int64'); attrs=dict{str:'b': str:'abc'}; "
                                          "encoding=dict{}; in_memory=True; data=['ndarray']; "
                                          'values=ndarray[<i8(3, 4)][[0, 1, 2, 3], [4, 5, 6, 7], [8, 9, 10, '
                                          "11]]; io=[]}; var x={type=IndexVariable; dims=tuple(str:'x'); "
                                          "shape=tuple(int:3); dtype=dtype('int64'); attrs=dict{}; "
                                          "encoding=dict{}; in_memory=True; data=['PandasIndexingAdapter', "
                                          "'Index', 'NumpyExtensionArray']; values=ndarray[<i8(3,)][10, 20, "
                                          '30]; io=[]}} attrs_untouched=True || locks=0 chunk_calls=[] || '
                                          'io=[]',
 'to_datatree coords chunks=None keyword': "{type=DataTree; paths=['/']; node /={type=Dataset; "
                                           "data_vars=['c']; coords=['d', 'x']; variables=['c', 'd', 'x']; "
                                           "sizes=dict{str:'x': int:3, str:'y': int:4}; "
                                           "attrs=dict{str:'other': int:1}; encoding=dict{}; indexes=['x']; "
                                           "var c={type=Variable; dims=tuple(str:'x'); shape=tuple(int:3); "
                                           "dtype=dtype('int8'); attrs=dict{str:'a': int:1}; "
                                           "encoding=dict{}; in_memory=True; data=['ndarray']; "
                                           'values=ndarray[|i1(3,)][1, 2, 3]; io=[]}; var d={type=Variable; '
                                           "dims=tuple(str:'x', str:'y'); shape=tuple(int:3, int:4); "
                                           "dtype=dtype('int64'); attrs=dict{str:'b': str:'abc'}; "
                                           "encoding=dict{}; in_memory=True; data=['ndarray']; "
                                           'values=ndarray[<i8(3, 4)][[0, 1, 2, 3], [4, 5, 6, 7], [8, 9, 10, '
                                           "11]]; io=[]}; var x={type=IndexVariable; dims=tuple(str:'x'); "
                                           "shape=tuple(int:3); dtype=dtype('int64'); attrs=dict{}; "
                                           "encoding=dict{}; in_memory=True; data=['PandasIndexingAdapter', "
                                           "'Index', 'NumpyExtensionArray']; values=ndarray[<i8(3,)][10, 20, "
                                           '30]; io=[]}}; children /=[]} attrs_untouched=True || locks=0 '
                                           'chunk_calls=[] || io=[]',
 'to_dataset coords chunks=None positional': "{type=Dataset; data_vars=['c']; coords=['d', 'x']; "
                                             "variables=['c', 'd', 'x']; sizes=dict{str:'x': int:3, str:'y': "
                                             "int:4}; attrs=dict{str:'other': int:1}; encoding=dict{}; "
                                             "indexes=['x']; var c={type=Variable; dims=tuple(str:'x'); "
                                             "shape=tuple(int:3); dtype=dtype('int8'); attrs=dict{str:'a': "
                                             "int:1}; encoding=dict{}; in_memory=True; data=['ndarray']; "
                                             'values=ndarray[|i1(3,)][1, 2, 3]; io=[]}; var '
                                             "d={type=Variable; dims=tuple(str:'x', str:'y'); "
                                             "shape=tuple(int:3, int:4); dtype=dtype('int64'); "
                                             "attrs=dict{str:'b': str:'abc'}; encoding=dict{}; "
                                             "in_memory=True; data=['ndarray']; values=ndarray[<i8(3, "
                                             '4)][[0, 1, 2, 3], [4, 5, 6, 7], [8, 9, 10, 11]]; io=[]}; var '
                                             "x={type=IndexVariable; dims=tuple(str:'x'); "
                                             "shape=tuple(int:3); dtype=dtype('int64'); attrs=dict{}; "
                                             'encoding=dict{}; in_memory=True; '
                                             "data=['PandasIndexingAdapter', 'Index', "
                                             "'NumpyExtensionArray']; values=ndarray[<i8(3,)][10, 20, 30]; "
                                             'io=[]}} attrs_untouched=True || locks=0 chunk_calls=[] || '
                                             'io=[]',
 'to_datatree coords chunks=None positional': "{type=DataTree; paths=['/']; node /={type=Dataset; "
                                              "data_vars=['c']; coords=['d', 'x']; variables=['c', 'd', "
                                              "'x']; sizes=dict{str:'x': int:3, str:'y': int:4}; "
                                              "attrs=dict{str:'other': int:1}; encoding=dict{}; "
                                              "indexes=['x']; var c={type=Variable; dims=tuple(str:'x'); "
                                              "shape=tuple(int:3); dtype=dtype('int8'); attrs=dict{str:'a': "
                                              "int:1}; encoding=dict{}; in_memory=True; data=['ndarray']; "
                                              'values=ndarray[|i1(3,)][1, 2, 3]; io=[]}; var '
                                              "d={type=Variable; dims=tuple(str:'x', str:'y'); "
                                              "shape=tuple(int:3, int:4); dtype=dtype('int64'); "
                                              "attrs=dict{str:'b': str:'abc'}; encoding=dict{}; "
                                              "in_memory=True; data=['ndarray']; values=ndarray[<i8(3, "
                                              '4)][[0, 1, 2, 3], [4, 5, 6, 7], [8, 9, 10, 11]]; io=[]}; var '
                                              "x={type=IndexVariable; dims=tuple(str:'x'); "
                                              "shape=tuple(int:3); dtype=dtype('int64'); attrs=dict{}; "
                                              'encoding=dict{}; in_memory=True; '
                                              "data=['PandasIndexingAdapter', 'Index', "
                                              "'NumpyExtensionArray']; values=ndarray[<i8(3,)][10, 20, 30]; "
                                              'io=[]}}; children /=[]} attrs_untouched=True || locks=0 '
                                              'chunk_calls=[] || io=[]',
 'to_dataset coords chunks={} keyword': "{type=Dataset; data_vars=['c']; coords=['d', 'x']; variables=['c', "
                                        "'d', 'x']; sizes=dict{str:'x': int:3, str:'y': int:4}; "
                                        "attrs=dict{str:'other': int:1}; encoding=dict{}; indexes=['x']; var "
                                        "c={type=Variable; dims=tuple(str:'x'); shape=tuple(int:3); "
                                        "dtype=dtype('int8'); attrs=dict{str:'a': int:1}; encoding=dict{}; "
                                        "in_memory=True; data=['ndarray']; values=ndarray[|i1(3,)][1, 2, 3]; "
                                        "io=[]}; var d={type=Variable; dims=tuple(str:'x', str:'y'); "
                                        "shape=tuple(int:3, int:4); dtype=dtype('int64'); "
                                        "attrs=dict{str:'b': str:'abc'}; encoding=dict{}; in_memory=True; "
                                        "data=['ndarray']; values=ndarray[<i8(3, 4)][[0, 1, 2, 3], [4, 5, 6, "
                                        '7], [8, 9, 10, 11]]; io=[]}; var x={type=IndexVariable; '
                                        "dims=tuple(str:'x'); shape=tuple(int:3); dtype=dtype('int64'); "
                                        'attrs=dict{}; encoding=dict{}; in_memory=True; '
                                        "data=['PandasIndexingAdapter', 'Index', 'NumpyExtensionArray']; "
                                        'values=ndarray[<i8(3,)][10, 20, 30]; io=[]}} attrs_untouched=True '
                                        "|| locks=0 chunk_calls=[('tuple(dict{})', 'dict{}', ['c', 'd', "
                                        "'x'])] || io=[]",
 'to_datatree coords chunks={} keyword': "{type=DataTree; paths=['/']; node /={type=Dataset; "
                                         "data_vars=['c']; coords=['d', 'x']; variables=['c', 'd', 'x']; "
                                         "sizes=dict{str:'x': int:3, str:'y': int:4}; "
                                         "attrs=dict{str:'other': int:1}; encoding=dict{}; indexes=['x']; "
                                         "var c={type=Variable; dims=tuple(str:'x'); shape=tuple(int:3); "
                                         "dtype=dtype('int8'); attrs=dict{str:'a': int:1}; encoding=dict{}; "
                                         "in_memory=True; data=['ndarray']; values=ndarray[|i1(3,)][1, 2, "
                                         "3]; io=[]}; var d={type=Variable; dims=tuple(str:'x', str:'y'); "
                                         "shape=tuple(int:3, int:4); dtype=dtype('int64'); "
                                         "attrs=dict{str:'b': str:'abc'}; encoding=dict{}; in_memory=True; "
                                         "data=['ndarray']; values=ndarray[<i8(3, 4)][[0, 1, 2, 3], [4, 5, "
                                         '6, 7], [8, 9, 10, 11]]; io=[]}; var x={type=IndexVariable; '
                                         "dims=tuple(str:'x'); shape=tuple(int:3); dtype=dtype('int64'); "
                                         'attrs=dict{}; encoding=dict{}; in_memory=True; '
                                         "data=['PandasIndexingAdapter', 'Index', 'NumpyExtensionArray']; "
                                         'values=ndarray[<i8(3,)][10, 20, 30]; io=[]}}; children /=[]} '
                                         "attrs_untouched=True || locks=0 chunk_calls=[('tuple(dict{})', "
                                         "'dict{}', ['c', 'd', 'x']), ('tuple(dict{})', 'dict{}', ['c', 'd', "
                                         "'x'])] || io=[]",
 'to_dataset coords chunks=x1y2 keyword': "{type=Dataset; data_vars=['c']; coords=['d', 'x']; "
                                          "variables=['c', 'd', 'x']; sizes=dict{str:'x': int:3, str:'y': "
                                          "int:4}; attrs=dict{str:'other': int:1}; encoding=dict{}; "
                                          "indexes=['x']; var c={type=Variable; dims=tuple(str:'x'); "
                                          "shape=tuple(int:3); dtype=dtype('int8'); attrs=dict{str:'a': "
                                          "int:1}; encoding=dict{}; in_memory=True; data=['ndarray']; "
                                          'values=ndarray[|i1(3,)][1, 2, 3]; io=[]}; var d={type=Variable; '
                                          "dims=tuple(str:'x', str:'y'); shape=tuple(int:3, int:4); "
                                          "dtype=dtype('int64'); attrs=dict{str:'b': str:'abc'}; "
                                          "encoding=dict{}; in_memory=True; data=['ndarray']; "
                                          'values=ndarray[<i8(3, 4)][[0, 1, 2, 3], [4, 5, 6, 7], [8, 9, 10, '
                                          "11]]; io=[]}; var x={type=IndexVariable; dims=tuple(str:'x'); "
                                          "shape=tuple(int:3); dtype=dtype('int64'); attrs=dict{}; "
                                          "encoding=dict{}; in_memory=True; data=['PandasIndexingAdapter', "
                                          "'Index', 'NumpyExtensionArray']; values=ndarray[<i8(3,)][10, 20, "
                                          '30]; io=[]}} attrs_untouched=True || locks=0 '
                                          'chunk_calls=[("tuple(dict{str:\'x\': int:1, str:\'y\': int:2})", '
                                          "'dict{}', ['c', 'd', 'x'])] || io=[]",
 'to_datatree coords chunks=x1y2 keyword': "{type=DataTree; paths=['/']; node /={type=Dataset; "
                                           "data_vars=['c']; coords=['d', 'x']; variables=['c', 'd', 'x']; "
                                           "sizes=dict{str:'x': int:3, str:'y': int:4}; "
                                           "attrs=dict{str:'other': int:1}; encoding=dict{}; indexes=['x']; "
                                           "var c={type=Variable; dims=tuple(str:'x'); shape=tuple(int:3); "
                                           "dtype=dtype('int8'); attrs=dict{str:'a': int:1}; "
                                           "encoding=dict{}; in_memory=True; data=['ndarray']; "
                                           'values=ndarray[|i1(3,)][1, 2, 3]; io=[]}; var d={type=Variable; '
                                           "dims=tuple(str:'x', str:'y'); shape=tuple(int:3, int:4); "
                                           "dtype=dtype('int64'); attrs=dict{str:'b': str:'abc'}; "
                                           "encoding=dict{}; in_memory=True; data=['ndarray']; "
                                           'values=ndarray[<i8(3, 4)][[0, 1, 2, 3], [4, 5, 6, 7], [8, 9, 10, '
                                           "11]]; io=[]}; var x={type=IndexVariable; dims=tuple(str:'x'); "
                                           "shape=tuple(int:3); dtype=dtype('int64'); attrs=dict{}; "
                                           "encoding=dict{}; in_memory=True; data=['PandasIndexingAdapter', "
                                           "'Index', 'NumpyExtensionArray']; values=ndarray[<i8(3,)][10, 20, "
                                           '30]; io=[]}}; children /=[]} attrs_untouched=True || locks=0 '
                                           'chunk_calls=[("tuple(dict{str:\'x\': int:1, str:\'y\': int:2})", '
                                           '\'dict{}\', [\'c\', \'d\', \'x\']), ("tuple(dict{str:\'x\': '
                                           'int:1, str:\'y\': int:2})", \'dict{}\', [\'c\', \'d\', \'x\'])] '
                                           '|| io=[]',
 'to_dataset coords chunks=rows keyword': "{type=Dataset; data_vars=['c']; coords=['d', 'x']; "
                                          "variables=['c', 'd', 'x']; sizes=dict{str:'x': int:3, str:'y': "
                                          "int:4}; attrs=dict{str:'other': int:1}; encoding=dict{}; "
                                          "indexes=['x']; var c={type=Variable; dims=tuple(str:'x'); "
                                          "shape=tuple(int:3); dtype=dtype('int8'); attrs=dict{str:'a': "
                                          "int:1}; encoding=dict{}; in_memory=True; data=['ndarray']; "
                                          'values=ndarray[|i1(3,)][1, 2, 3]; io=[]}; var d={type=Variable; '
                                          "dims=tuple(str:'x', str:'y'); shape=tuple(int:3, int:4); "
                                          "dtype=dtype('int64'); attrs=dict{str:'b': str:'abc'}; "
                                          "encoding=dict{}; in_memory=True; data=['ndarray']; "
                                          'values=ndarray[<i8(3, 4)][[0, 1, 2, 3], [4, 5, 6, 7], [8, 9, 10, '
                                          "11]]; io=[]}; var x={type=IndexVariable; dims=tuple(str:'x'); "
                                          "shape=tuple(int:3); dtype=dtype('int64'); attrs=dict{}; "
                                          "encoding=dict{}; in_memory=True; data=['PandasIndexingAdapter', "
                                          "'Index', 'NumpyExtensionArray']; values=ndarray[<i8(3,)][10, 20, "
                                          '30]; io=[]}} attrs_untouched=True || locks=0 '
                                          "chunk_calls=[('tuple(dict{})', 'dict{}', ['c', 'd', 'x'])] || "
                                          'io=[]',
 'to_datatree coords chunks=rows keyword': "{type=DataTree; paths=['/']; node /={type=Dataset; "
                                           "data_vars=['c']; coords=['d', 'x']; variables=['c', 'd', 'x']; "
                                           "sizes=dict{str:'x': int:3, str:'y': int:4}; "
                                           "attrs=dict{str:'other': int:1}; encoding=dict{}; indexes=['x']; "
                                           "var c={type=Variable; dims=tuple(str:'x'); shape=tuple(int:3); "
                                           "dtype=dtype('int8'); attrs=dict{str:'a': int:1}; "
                                           "encoding=dict{}; in_memory=True; data=['ndarray']; "
                                           'values=ndarray[|i1(3,)][1, 2, 3]; io=[]}; var d={type=Variable; '
                                           "dims=tuple(str:'x', str:'y'); shape=tuple(int:3, int:4); "
                                           "dtype=dtype('int64'); attrs=dict{str:'b': str:'abc'}; "
                                           "encoding=dict{}; in_memory=True; data=['ndarray']; "
                                           'values=ndarray[<i8(3, 4)][[0, 1, 2, 3], [4, 5, 6, 7], [8, 9, 10, '
                                           "11]]; io=[]}; var x={type=IndexVariable; dims=tuple(str:'x'); "
                                           "shape=tuple(int:3); dtype=dtype('int64'); attrs=dict{}; "
                                           "encoding=dict{}; in_memory=True; data=['PandasIndexingAdapter', "
                                           "'Index', 'NumpyExtensionArray']; values=ndarray[<i8(3,)][10, 20, "
                                           '30]; io=[]}}; children /=[]} attrs_untouched=True || locks=0 '
                                           "chunk_calls=[('tuple(dict{})', 'dict{}', ['c', 'd', 'x']), "
                                           "('tuple(dict{})', 'dict{}', ['c', 'd', 'x'])] || io=[]",
 'to_dataset coords chunks=rows positional': "{type=Dataset; data_vars=['c']; coords=['d', 'x']; "
                                             "variables=['c', 'd', 'x']; sizes=dict{str:'x': int:3, str:'y': "
                                             "int:4}; attrs=dict{str:'other': int:1}; encoding=dict{}; "
                                             "indexes=['x']; var c={type=Variable; dims=tuple(str:'x'); "
                                             "shape=tuple(int:3); dtype=dtype('int8'); attrs=dict{str:'a': "
                                             "int:1}; encoding=dict{}; in_memory=True; data=['ndarray']; "
                                             'values=ndarray[|i1(3,)][1, 2, 3]; io=[]}; var '
                                             "d={type=Variable; dims=tuple(str:'x', str:'y'); "
                                             "shape=tuple(int:3, int:4); dtype=dtype('int64'); "
                                             "attrs=dict{str:'b': str:'abc'}; encoding=dict{}; "
                                             "in_memory=True; data=['ndarray']; values=ndarray[<i8(3, "
                                             '4)][[0, 1, 2, 3], [4, 5, 6, 7], [8, 9, 10, 11]]; io=[]}; var '
                                             "x={type=IndexVariable; dims=tuple(str:'x'); "
                                             "shape=tuple(int:3); dtype=dtype('int64'); attrs=dict{}; "
                                             'encoding=dict{}; in_memory=True; '
                                             "data=['PandasIndexingAdapter', 'Index', "
                                             "'NumpyExtensionArray']; values=ndarray[<i8(3,)][10, 20, 30]; "
                                             'io=[]}} attrs_untouched=True || locks=0 '
                                             "chunk_calls=[('tuple(dict{})', 'dict{}', ['c', 'd', 'x'])] || "
                                             'io=[]',
 'to_datatree coords chunks=rows positional': "{type=DataTree; paths=['/']; node /={type=Dataset; "
                                              "data_vars=['c']; coords=['d', 'x']; variables=['c', 'd', "
                                              "'x']; sizes=dict{str:'x': int:3, str:'y': int:4}; "
                                              "attrs=dict{str:'other': int:1}; encoding=dict{}; "
                                              "indexes=['x']; var c={type=Variable; dims=tuple(str:'x'); "
                                              "shape=tuple(int:3); dtype=dtype('int8'); attrs=dict{str:'a': "
                                              "int:1}; encoding=dict{}; in_memory=True; data=['ndarray']; "
                                              'values=ndarray[|i1(3,)][1, 2, 3]; io=[]}; var '
                                              "d={type=Variable; dims=tuple(str:'x', str:'y'); "
                                              "shape=tuple(int:3, int:4); dtype=dtype('int64'); "
                                              "attrs=dict{str:'b': str:'abc'}; encoding=dict{}; "
                                              "in_memory=True; data=['ndarray']; values=ndarray[<i8(3, "
                                              '4)][[0, 1, 2, 3], [4, 5, 6, 7], [8, 9, 10, 11]]; io=[]}; var '
                                              "x={type=IndexVariable; dims=tuple(str:'x'); "
                                              "shape=tuple(int:3); dtype=dtype('int64'); attrs=dict{}; "
                                              'encoding=dict{}; in_memory=True; '
                                              "data=['PandasIndexingAdapter', 'Index', "
                                              "'NumpyExtensionArray']; values=ndarray[<i8(3,)][10, 20, 30]; "
                                              'io=[]}}; children /=[]} attrs_untouched=True || locks=0 '
                                              "chunk_calls=[('tuple(dict{})', 'dict{}', ['c', 'd', 'x']), "
                                              "('tuple(dict{})', 'dict{}', ['c', 'd', 'x'])] || io=[]",
 'to_dataset coords chunks=rows-cols-nope keyword': "{type=Dataset; data_vars=['c']; coords=['d', 'x']; "
                                                    "variables=['c', 'd', 'x']; sizes=dict{str:'x': int:3, "
                                                    "str:'y': int:4}; attrs=dict{str:'other': int:1}; "
                                                    "encoding=dict{}; indexes=['x']; var c={type=Variable; "
                                                    "dims=tuple(str:'x'); shape=tuple(int:3); "
                                                    "dtype=dtype('int8'); attrs=dict{str:'a': int:1}; "
                                                    "encoding=dict{}; in_memory=True; data=['ndarray']; "
                                                    'values=ndarray[|i1(3,)][1, 2, 3]; io=[]}; var '
                                                    "d={type=Variable; dims=tuple(str:'x', str:'y'); "
                                                    "shape=tuple(int:3, int:4); dtype=dtype('int64'); "
                                                    "attrs=dict{str:'b': str:'abc'}; encoding=dict{}; "
                                                    "in_memory=True; data=['ndarray']; values=ndarray[<i8(3, "
                                                    '4)][[0, 1, 2, 3], [4, 5, 6, 7], [8, 9, 10, 11]]; '
                                                    "io=[]}; var x={type=IndexVariable; dims=tuple(str:'x'); "
                                                    "shape=tuple(int:3); dtype=dtype('int64'); attrs=dict{}; "
                                                    'encoding=dict{}; in_memory=True; '
                                                    "data=['PandasIndexingAdapter', 'Index', "
                                                    "'NumpyExtensionArray']; values=ndarray[<i8(3,)][10, 20, "
                                                    '30]; io=[]}} attrs_untouched=True || locks=0 '
                                                    "chunk_calls=[('tuple(dict{})', 'dict{}', ['c', 'd', "
                                                    "'x'])] || io=[]",
 'to_datatree coords chunks=rows-cols-nope keyword': "{type=DataTree; paths=['/']; node /={type=Dataset; "
                                                     "data_vars=['c']; coords=['d', 'x']; variables=['c', "
                                                     "'d', 'x']; sizes=dict{str:'x': int:3, str:'y': int:4}; "
                                                     "attrs=dict{str:'other': int:1}; encoding=dict{}; "
                                                     "indexes=['x']; var c={type=Variable; "
                                                     "dims=tuple(str:'x'); shape=tuple(int:3); "
                                                     "dtype=dtype('int8'); attrs=dict{str:'a': int:1}; "
                                                     "encoding=dict{}; in_memory=True; data=['ndarray']; "
                                                     'values=ndarray[|i1(3,)][1, 2, 3]; io=[]}; var '
                                                     "d={type=Variable; dims=tuple(str:'x', str:'y'); "
                                                     "shape=tuple(int:3, int:4); dtype=dtype('int64'); "
                                                     "attrs=dict{str:'b': str:'abc'}; encoding=dict{}; "
                                                     "in_memory=True; data=['ndarray']; "
                                                     'values=ndarray[<i8(3, 4)][[0, 1, 2, 3], [4, 5, 6, 7], '
                                                     '[8, 9, 10, 11]]; io=[]}; var x={type=IndexVariable; '
                                                     "dims=tuple(str:'x'); shape=tuple(int:3); "
                                                     "dtype=dtype('int64'); attrs=dict{}; encoding=dict{}; "
                                                     "in_memory=True; data=['PandasIndexingAdapter', "
                                                     "'Index', 'NumpyExtensionArray']; "
                                                     'values=ndarray[<i8(3,)][10, 20, 30]; io=[]}}; children '
                                                     '/=[]} attrs_untouched=True || locks=0 '
                                                     "chunk_calls=[('tuple(dict{})', 'dict{}', ['c', 'd', "
                                                     "'x']), ('tuple(dict{})', 'dict{}', ['c', 'd', 'x'])] "
                                                     '|| io=[]',
 'to_dataset coords chunks=nope keyword': "{type=Dataset; data_vars=['c']; coords=['d', 'x']; "
                                          "variables=['c', 'd', 'x']; sizes=dict{str:'x': int:3, str:'y': "
                                          "int:4}; attrs=dict{str:'other': int:1}; encoding=dict{}; "
                                          "indexes=['x']; var c={type=Variable; dims=tuple(str:'x'); "
                                          "shape=tuple(int:3); dtype=dtype('int8'); attrs=dict{str:'a': "
                                          "int:1}; encoding=dict{}; in_memory=True; data=['ndarray']; "
                                          'values=ndarray[|i1(3,)][1, 2, 3]; io=[]}; var d={type=Variable; '
                                          "dims=tuple(str:'x', str:'y'); shape=tuple(int:3, int:4); "
                                          "dtype=dtype('int64'); attrs=dict{str:'b': str:'abc'}; "
                                          "encoding=dict{}; in_memory=True; data=['ndarray']; "
                                          'values=ndarray[<i8(3, 4)][[0, 1, 2, 3], [4, 5, 6, 7], [8, 9, 10, '
                                          "11]]; io=[]}; var x={type=IndexVariable; dims=tuple(str:'x'); "
                                          "shape=tuple(int:3); dtype=dtype('int64'); attrs=dict{}; "
                                          "encoding=dict{}; in_memory=True; data=['PandasIndexingAdapter', "
                                          "'Index', 'NumpyExtensionArray']; values=ndarray[<i8(3,)][10, 20, "
                                          '30]; io=[]}} attrs_untouched=True || locks=0 '
                                          "chunk_calls=[('tuple(dict{})', 'dict{}', ['c', 'd', 'x'])] || "
                                          'io=[]',
 'to_datatree coords chunks=nope keyword': "{type=DataTree; paths=['/']; node /={type=Dataset; "
                                           "data_vars=['c']; coords=['d', 'x']; variables=['c', 'd', 'x']; "
                                           "sizes=dict{str:'x': int:3, str:'y': int:4}; "
                                           "attrs=dict{str:'other': int:1}; encoding=dict{}; indexes=['x']; "
                                           "var c={type=Variable; dims=tuple(str:'x'); shape=tuple(int:3); "
                                           "dtype=dtype('int8'); attrs=dict{str:'a': int:1}; "
                                           "encoding=dict{}; in_memory=True; data=['ndarray']; "
                                           'values=ndarray[|i1(3,)][1, 2, 3]; io=[]}; var d={type=Variable; '
                                           "dims=tuple(str:'x', str:'y'); shape=tuple(int:3, int:4); "
                                           "dtype=dtype('int64'); attrs=dict{str:'b': str:'abc'}; "
                                           "encoding=dict{}; in_memory=True; data=['ndarray']; "
                                           'values=ndarray[<i8(3, 4)][[0, 1, 2, 3], [4, 5, 6, 7], [8, 9, 10, '
                                           "11]]; io=[]}; var x={type=IndexVariable; dims=tuple(str:'x'); "
                                           "shape=tuple(int:3); dtype=dtype('int64'); attrs=dict{}; "
                                           "encoding=dict{}; in_memory=True; data=['PandasIndexingAdapter', "
                                           "'Index', 'NumpyExtensionArray']; values=ndarray[<i8(3,)][10, 20, "
                                           '30]; io=[]}}; children /=[]} attrs_untouched=True || locks=0 '
                                           "chunk_calls=[('tuple(dict{})', 'dict{}', ['c', 'd', 'x']), "
                                           "('tuple(dict{})', 'dict{}', ['c', 'd', 'x'])] || io=[]",
 'to_dataset coords chunks=readonly keyword': "{type=Dataset; data_vars=['c']; coords=['d', 'x']; "
                                              "variables=['c', 'd', 'x']; sizes=dict{str:'x': int:3, "
                                              "str:'y': int:4}; attrs=dict{str:'other': int:1}; "
                                              "encoding=dict{}; indexes=['x']; var c={type=Variable; "
                                              "dims=tuple(str:'x'); shape=tuple(int:3); dtype=dtype('int8'); "
                                              "attrs=dict{str:'a': int:1}; encoding=dict{}; in_memory=True; "
                                              "data=['ndarray']; values=ndarray[|i1(3,)][1, 2, 3]; io=[]}; "
                                              "var d={type=Variable; dims=tuple(str:'x', str:'y'); "
                                              "shape=tuple(int:3, int:4); dtype=dtype('int64'); "
                                              "attrs=dict{str:'b': str:'abc'}; encoding=dict{}; "
                                              "in_memory=True; data=['ndarray']; values=ndarray[<i8(3, "
                                              '4)][[0, 1, 2, 3], [4, 5, 6, 7], [8, 9, 10, 11]]; io=[]}; var '
                                              "x={type=IndexVariable; dims=tuple(str:'x'); "
                                              "shape=tuple(int:3); dtype=dtype('int64'); attrs=dict{}; "
                                              'encoding=dict{}; in_memory=True; '
                                              "data=['PandasIndexingAdapter', 'Index', "
                                              "'NumpyExtensionArray']; values=ndarray[<i8(3,)][10, 20, 30]; "
                                              'io=[]}} attrs_untouched=True || locks=0 '
                                              'chunk_calls=[("tuple(dict{str:\'x\': int:2})", \'dict{}\', '
                                              "['c', 'd', 'x'])] || io=[]",
 'to_datatree coords chunks=readonly keyword': "{type=DataTree; paths=['/']; node /={type=Dataset; "
                                               "data_vars=['c']; coords=['d', 'x']; variables=['c', 'd', "
                                               "'x']; sizes=dict{str:'x': int:3, str:'y': int:4}; "
                                               "attrs=dict{str:'other': int:1}; encoding=dict{}; "
                                               "indexes=['x']; var c={type=Variable; dims=tuple(str:'x'); "
                                               "shape=tuple(int:3); dtype=dtype('int8'); attrs=dict{str:'a': "
                                               "int:1}; encoding=dict{}; in_memory=True; data=['ndarray']; "
                                               'values=ndarray[|i1(3,)][1, 2, 3]; io=[]}; var '
                                               "d={type=Variable; dims=tuple(str:'x', str:'y'); "
                                               "shape=tuple(int:3, int:4); dtype=dtype('int64'); "
                                               "attrs=dict{str:'b': str:'abc'}; encoding=dict{}; "
                                               "in_memory=True; data=['ndarray']; values=ndarray[<i8(3, "
                                               '4)][[0, 1, 2, 3], [4, 5, 6, 7], [8, 9, 10, 11]]; io=[]}; var '
                                               "x={type=IndexVariable; dims=tuple(str:'x'); "
                                               "shape=tuple(int:3); dtype=dtype('int64'); attrs=dict{}; "
                                               'encoding=dict{}; in_memory=True; '
                                               "data=['PandasIndexingAdapter', 'Index', "
                                               "'NumpyExtensionArray']; values=ndarray[<i8(3,)][10, 20, 30]; "
                                               'io=[]}}; children /=[]} attrs_untouched=True || locks=0 '
                                               'chunk_calls=[("tuple(dict{str:\'x\': int:2})", \'dict{}\', '
                                               '[\'c\', \'d\', \'x\']), ("tuple(dict{str:\'x\': int:2})", '
                                               "'dict{}', ['c', 'd', 'x'])] || io=[]",
 'to_dataset coords chunks=-1 keyword': "raise builtins.AttributeError: 'int' object has no attribute "
                                        "'items' || locks=0 chunk_calls=[] || io=[]",
 'to_datatree coords chunks=-1 keyword': "raise builtins.AttributeError: 'int' object has no attribute "
                                         "'items' || locks=0 chunk_calls=[] || io=[]",
 'to_dataset coords chunks=-1 positional': "raise builtins.AttributeError: 'int' object has no attribute "
                                           "'items' || locks=0 chunk_calls=[] || io=[]",
 'to_datatree coords chunks=-1 positional': "raise builtins.AttributeError: 'int' object has no attribute "
                                            "'items' || locks=0 chunk_calls=[] || io=[]",
 "to_dataset coords chunks='auto' keyword": "raise builtins.AttributeError: 'str' object has no attribute "
                                            "'items' || locks=0 chunk_calls=[] || io=[]",
 "to_datatree coords chunks='auto' keyword": "raise builtins.AttributeError: 'str' object has no attribute "
                                             "'items' || locks=0 chunk_calls=[] || io=[]",
 'to_dataset coords chunks=0 keyword': "raise builtins.AttributeError: 'int' object has no attribute 'items' "
                                       '|| locks=0 chunk_calls=[] || io=[]',
 'to_datatree coords chunks=0 keyword': "raise builtins.AttributeError: 'int' object has no attribute "
                                        "'items' || locks=0 chunk_calls=[] || io=[]",
 'to_dataset coords chunks=list keyword': "raise builtins.AttributeError: 'list' object has no attribute "
                                          "'items' || locks=0 chunk_calls=[] || io=[]",
 'to_datatree coords chunks=list keyword': "raise builtins.AttributeError: 'list' object has no attribute "
                                           "'items' || locks=0 chunk_calls=[] || io=[]",
 'to_dataset coords default': "{type=Dataset; data_vars=['c']; coords=['d', 'x']; variables=['c', 'd', 'x']; "
                              "sizes=dict{str:'x': int:3, str:'y': int:4}; attrs=dict{str:'other': int:1}; "
                              "encoding=dict{}; indexes=['x']; var c={type=Variable; dims=tuple(str:'x'); "
                              "shape=tuple(int:3); dtype=dtype('int8'); attrs=dict{str:'a': int:1}; "
                              "encoding=dict{}; in_memory=True; data=['ndarray']; values=ndarray[|i1(3,)][1, "
                              "2, 3]; io=[]}; var d={type=Variable; dims=tuple(str:'x', str:'y'); "
                              "shape=tuple(int:3, int:4); dtype=dtype('int64'); attrs=dict{str:'b': "
                              "str:'abc'}; encoding=dict{}; in_memory=True; data=['ndarray']; "
                              'values=ndarray[<i8(3, 4)][[0, 1, 2, 3], [4, 5, 6, 7], [8, 9, 10, 11]]; '
                              "io=[]}; var x={type=IndexVariable; dims=tuple(str:'x'); shape=tuple(int:3); "
                              "dtype=dtype('int64'); attrs=dict{}; encoding=dict{}; in_memory=True; "
                              "data=['PandasIndexingAdapter', 'Index', 'NumpyExtensionArray']; "
                              'values=ndarray[<i8(3,)][10, 20, 30]; io=[]}} attrs_untouched=True || locks=0 '
                              'chunk_calls=[] || io=[]',
 'to_datatree coords default': "{type=DataTree; paths=['/']; node /={type=Dataset; data_vars=['c']; "
                               "coords=['d', 'x']; variables=['c', 'd', 'x']; sizes=dict{str:'x': int:3, "
                               "str:'y': int:4}; attrs=dict{str:'other': int:1}; encoding=dict{}; "
                               "indexes=['x']; var c={type=Variable; dims=tuple(str:'x'); "
                               "shape=tuple(int:3); dtype=dtype('int8'); attrs=dict{str:'a': int:1}; "
                               "encoding=dict{}; in_memory=True; data=['ndarray']; "
                               'values=ndarray[|i1(3,)][1, 2, 3]; io=[]}; var d={type=Variable; '
                               "dims=tuple(str:'x', str:'y'); shape=tuple(int:3, int:4); "
                               "dtype=dtype('int64'); attrs=dict{str:'b': str:'abc'}; encoding=dict{}; "
                               "in_memory=True; data=['ndarray']; values=ndarray[<i8(3, 4)][[0, 1, 2, 3], "
                               '[4, 5, 6, 7], [8, 9, 10, 11]]; io=[]}; var x={type=IndexVariable; '
                               "dims=tuple(str:'x'); shape=tuple(int:3); dtype=dtype('int64'); attrs=dict{}; "
                               "encoding=dict{}; in_memory=True; data=['PandasIndexingAdapter', 'Index', "
                               "'NumpyExtensionArray']; values=ndarray[<i8(3,)][10, 20, 30]; io=[]}}; "
                               'children /=[]} attrs_untouched=True || locks=0 chunk_calls=[] || io=[]',
 'to_dataset coords-all chunks=None keyword': "{type=Dataset; data_vars=[]; coords=['c', 'd']; "
                                              "variables=['c', 'd']; sizes=dict{str:'x': int:3}; "
                                              'attrs=dict{}; encoding=dict{}; indexes=[]; var '
                                              "c={type=Variable; dims=tuple(str:'x'); shape=tuple(int:3); "
                                              "dtype=dtype('float64'); attrs=dict{}; encoding=dict{}; "
                                              "in_memory=True; data=['ndarray']; "
                                              'values=ndarray[<f8(3,)][0.0, 0.0, 0.0]; io=[]}; var '
                                              "d={type=Variable; dims=tuple(str:'x'); shape=tuple(int:3); "
                                              "dtype=dtype('float64'); attrs=dict{}; encoding=dict{}; "
                                              "in_memory=True; data=['ndarray']; "
                                              'values=ndarray[<f8(3,)][1.0, 1.0, 1.0]; io=[]}} '
                                              'attrs_untouched=True || locks=0 chunk_calls=[] || io=[]',
 'to_datatree coords-all chunks=None keyword': "{type=DataTree; paths=['/']; node /={type=Dataset; "
                                               "data_vars=[]; coords=['c', 'd']; variables=['c', 'd']; "
                                               "sizes=dict{str:'x': int:3}; attrs=dict{}; encoding=dict{}; "
                                               "indexes=[]; var c={type=Variable; dims=tuple(str:'x'); "
                                               "shape=tuple(int:3); dtype=dtype('float64'); attrs=dict{}; "
                                               "encoding=dict{}; in_memory=True; data=['ndarray']; "
                                               'values=ndarray[<f8(3,)][0.0, 0.0, 0.0]; io=[]}; var '
                                               "d={type=Variable; dims=tuple(str:'x'); shape=tuple(int:3); "
                                               "dtype=dtype('float64'); attrs=dict{}; encoding=dict{}; "
                                               "in_memory=True; data=['ndarray']; "
                                               'values=ndarray[<f8(3,)][1.0, 1.0, 1.0]; io=[]}}; children '
                                               '/=[]} attrs_untouched=True || locks=0 chunk_calls=[] || '
                                               'io=[]',
 'to_dataset coords-all chunks=None positional': "{type=Dataset; data_vars=[]; coords=['c', 'd']; "
                                                 "variables=['c', 'd']; sizes=dict{str:'x': int:3}; "
                                                 'attrs=dict{}; encoding=dict{}; indexes=[]; var '
                                                 "c={type=Variable; dims=tuple(str:'x'); shape=tuple(int:3); "
                                                 "dtype=dtype('float64'); attrs=dict{}; encoding=dict{}; "
                                                 "in_memory=True; data=['ndarray']; "
                                                 'values=ndarray[<f8(3,)][0.0, 0.0, 0.0]; io=[]}; var '
                                                 "d={type=Variable; dims=tuple(str:'x'); shape=tuple(int:3); "
                                                 "dtype=dtype('float64'); attrs=dict{}; encoding=dict{}; "
                                                 "in_memory=True; data=['ndarray']; "
                                                 'values=ndarray[<f8(3,)][1.0, 1.0, 1.0]; io=[]}} '
                                                 'attrs_untouched=True || locks=0 chunk_calls=[] || io=[]',
 'to_datatree coords-all chunks=None positional': "{type=DataTree; paths=['/']; node /={type=Dataset; "
                                                  "data_vars=[]; coords=['c', 'd']; variables=['c', 'd']; "
                                                  "sizes=dict{str:'x': int:3}; attrs=dict{}; "
                                                  'encoding=dict{}; indexes=[]; var c={type=Variable; '
                                                  "dims=tuple(str:'x'); shape=tuple(int:3); "
                                                  "dtype=dtype('float64'); attrs=dict{}; encoding=dict{}; "
                                                  "in_memory=True; data=['ndarray']; "
                                                  'values=ndarray[<f8(3,)][0.0, 0.0, 0.0]; io=[]}; var '
                                                  "d={type=Variable; dims=tuple(str:'x'); "
                                                  "shape=tuple(int:3); dtype=dtype('float64'); attrs=dict{}; "
                                                  "encoding=dict{}; in_memory=True; data=['ndarray']; "
                                                  'values=ndarray[<f8(3,)][1.0, 1.0, 1.0]; io=[]}}; children '
                                                  '/=[]} attrs_untouched=True || locks=0 chunk_calls=[] || '
                                                  'io=[]',
 'to_dataset coords-all chunks=x1y2 keyword': "{type=Dataset; data_vars=[]; coords=['c', 'd']; "
                                              "variables=['c', 'd']; sizes=dict{str:'x': int:3}; "
                                              'attrs=dict{}; encoding=dict{}; indexes=[]; var '
                                              "c={type=Variable; dims=tuple(str:'x'); shape=tuple(int:3); "
                                              "dtype=dtype('float64'); attrs=dict{}; encoding=dict{}; "
                                              "in_memory=True; data=['ndarray']; "
                                              'values=ndarray[<f8(3,)][0.0, 0.0, 0.0]; io=[]}; var '
                                              "d={type=Variable; dims=tuple(str:'x'); shape=tuple(int:3); "
                                              "dtype=dtype('float64'); attrs=dict{}; encoding=dict{}; "
                                              "in_memory=True; data=['ndarray']; "
                                              'values=ndarray[<f8(3,)][1.0, 1.0, 1.0]; io=[]}} '
                                              'attrs_untouched=True || locks=0 '
                                              'chunk_calls=[("tuple(dict{str:\'x\': int:1})", \'dict{}\', '
                                              "['c', 'd'])] || io=[]",
 'to_datatree coords-all chunks=x1y2 keyword': "{type=DataTree; paths=['/']; node /={type=Dataset; "
                                               "data_vars=[]; coords=['c', 'd']; variables=['c', 'd']; "
                                               "sizes=dict{str:'x': int:3}; attrs=dict{}; encoding=dict{}; "
                                               "indexes=[]; var c={type=Variable; dims=tuple(str:'x'); "
                                               "shape=tuple(int:3); dtype=dtype('float64'); attrs=dict{}; "
                                               "encoding=dict{}; in_memory=True; data=['ndarray']; "
                                               'values=ndarray[<f8(3,)][0.0, 0.0, 0.0]; io=[]}; var '
                                               "d={type=Variable; dims=tuple(str:'x'); shape=tuple(int:3); "
                                               "dtype=dtype('float64'); attrs=dict{}; encoding=dict{}; "
                                               "in_memory=True; data=['ndarray']; "
                                               'values=ndarray[<f8(3,)][1.0, 1.0, 1.0]; io=[]}}; children '
                                               '/=[]} attrs_untouched=True || locks=0 '
                                               'chunk_calls=[("tuple(dict{str:\'x\': int:1})", \'dict{}\', '
                                               '[\'c\', \'d\']), ("tuple(dict{str:\'x\': int:1})", '
                                               "'dict{}', ['c', 'd'])] || io=[]",
 'to_dataset coords-all chunks=rows keyword': "{type=Dataset; data_vars=[]; coords=['c', 'd']; "
                                              "variables=['c', 'd']; sizes=dict{str:'x': int:3}; "
                                              'attrs=dict{}; encoding=dict{}; indexes=[]; var '
                                              "c={type=Variable; dims=tuple(str:'x'); shape=tuple(int:3); "
                                              "dtype=dtype('float64'); attrs=dict{}; encoding=dict{}; "
                                              "in_memory=True; data=['ndarray']; "
                                              'values=ndarray[<f8(3,)][0.0, 0.0, 0.0]; io=[]}; var '
                                              "d={type=Variable; dims=tuple(str:'x'); shape=tuple(int:3); "
                                              "dtype=dtype('float64'); attrs=dict{}; encoding=dict{}; "
                                              "in_memory=True; data=['ndarray']; "
                                              'values=ndarray[<f8(3,)][1.0, 1.0, 1.0]; io=[]}} '
                                              'attrs_untouched=True || locks=0 '
                                              "chunk_calls=[('tuple(dict{})', 'dict{}', ['c', 'd'])] || "
                                              'io=[]',
 'to_datatree coords-all chunks=rows keyword': "{type=DataTree; paths=['/']; node /={type=Dataset; "
                                               "data_vars=[]; coords=['c', 'd']; variables=['c', 'd']; "
                                               "sizes=dict{str:'x': int:3}; attrs=dict{}; encoding=dict{}; "
                                               "indexes=[]; var c={type=Variable; dims=tuple(str:'x'); "
                                               "shape=tuple(int:3); dtype=dtype('float64'); attrs=dict{}; "
                                               "encoding=dict{}; in_memory=True; data=['ndarray']; "
                                               'values=ndarray[<f8(3,)][0.0, 0.0, 0.0]; io=[]}; var '
                                               "d={type=Variable; dims=tuple(str:'x'); shape=tuple(int:3); "
                                               "dtype=dtype('float64'); attrs=dict{}; encoding=dict{}; "
                                               "in_memory=True; data=['ndarray']; "
                                               'values=ndarray[<f8(3,)][1.0, 1.0, 1.0]; io=[]}}; children '
                                               '/=[]} attrs_untouched=True || locks=0 '
                                               "chunk_calls=[('tuple(dict{})', 'dict{}', ['c', 'd']), "
                                               "('tuple(dict{})', 'dict{}', ['c', 'd'])] || io=[]",
 'to_dataset coords-all chunks=rows positional': "{type=Dataset; data_vars=[]; coords=['c', 'd']; "
                                                 "variables=['c', 'd']; sizes=dict{str:'x': int:3}; "
                                                 'attrs=dict{}; encoding=dict{}; indexes=[]; var '
                                                 "c={type=Variable; dims=tuple(str:'x'); shape=tuple(int:3); "
                                                 "dtype=dtype('float64'); attrs=dict{}; encoding=dict{}; "
                                                 "in_memory=True; data=['ndarray']; "
                                                 'values=ndarray[<f8(3,)][0.0, 0.0, 0.0]; io=[]}; var '
                                                 "d={type=Variable; dims=tuple(str:'x'); shape=tuple(int:3); "
                                                 "dtype=dtype('float64'); attrs=dict{}; encoding=dict{}; "
                                                 "in_memory=True; data=['ndarray']; "
                                                 'values=ndarray[<f8(3,)][1.0, 1.0, 1.0]; io=[]}} '
                                                 'attrs_untouched=True || locks=0 '
                                                 "chunk_calls=[('tuple(dict{})', 'dict{}', ['c', 'd'])] || "
                                                 'io=[]',
 'to_datatree coords-all chunks=rows positional': "{type=DataTree; paths=['/']; node /={type=Dataset; "
                                                  "data_vars=[]; coords=['c', 'd']; variables=['c', 'd']; "
                                                  "sizes=dict{str:'x': int:3}; attrs=dict{}; "
                                                  'encoding=dict{}; indexes=[]; var c={type=Variable; '
                                                  "dims=tuple(str:'x'); shape=tuple(int:3); "
                                                  "dtype=dtype('float64'); attrs=dict{}; encoding=dict{}; "
                                                  "in_memory=True; data=['ndarray']; "
                                                  'values=ndarray[<f8(3,)][0.0, 0.0, 0.0]; io=[]}; var '
                                                  "d={type=Variable; dims=tuple(str:'x'); "
                                                  "shape=tuple(int:3); dtype=dtype('float64'); attrs=dict{}; "
                                                  "encoding=dict{}; in_memory=True; data=['ndarray']; "
                                                  'values=ndarray[<f8(3,)][1.0, 1.0, 1.0]; io=[]}}; children '
                                                  '/=[]} attrs_untouched=True || locks=0 '
                                                  "chunk_calls=[('tuple(dict{})', 'dict{}', ['c', 'd']), "
                                                  "('tuple(dict{})', 'dict{}', ['c', 'd'])] || io=[]",
 'to_dataset coords-all chunks=-1 keyword': "raise builtins.AttributeError: 'int' object has no attribute "
                                            "'items' || locks=0 chunk_calls=[] || io=[]",
 'to_datatree coords-all chunks=-1 keyword': "raise builtins.AttributeError: 'int' object has no attribute "
                                             "'items' || locks=0 chunk_calls=[] || io=[]",
 'to_dataset coords-all chunks=-1 positional': "raise builtins.AttributeError: 'int' object has no attribute "
                                               "'items' || locks=0 chunk_calls=[] || io=[]",
 'to_datatree coords-all chunks=-1 positional': "raise builtins.AttributeError: 'int' object has no "
                                                "attribute 'items' || locks=0 chunk_calls=[] || io=[]",
 'to_dataset coords-all default': "{type=Dataset; data_vars=[]; coords=['c', 'd']; variables=['c', 'd']; "
                                  "sizes=dict{str:'x': int:3}; attrs=dict{}; encoding=dict{}; indexes=[]; "
                                  "var c={type=Variable; dims=tuple(str:'x'); shape=tuple(int:3); "
                                  "dtype=dtype('float64'); attrs=dict{}; encoding=dict{}; in_memory=True; "
                                  "data=['ndarray']; values=ndarray[<f8(3,)][0.0, 0.0, 0.0]; io=[]}; var "
                                  "d={type=Variable; dims=tuple(str:'x'); shape=tuple(int:3); "
                                  "dtype=dtype('float64'); attrs=dict{}; encoding=dict{}; in_memory=True; "
                                  "data=['ndarray']; values=ndarray[<f8(3,)][1.0, 1.0, 1.0]; io=[]}} "
                                  'attrs_untouched=True || locks=0 chunk_calls=[] || io=[]',
 'to_datatree coords-all default': "{type=DataTree; paths=['/']; node /={type=Dataset; data_vars=[]; "
                                   "coords=['c', 'd']; variables=['c', 'd']; sizes=dict{str:'x': int:3}; "
                                   'attrs=dict{}; encoding=dict{}; indexes=[]; var c={type=Variable; '
                                   "dims=tuple(str:'x'); shape=tuple(int:3); dtype=dtype('float64'); "
                                   "attrs=dict{}; encoding=dict{}; in_memory=True; data=['ndarray']; "
                                   'values=ndarray[<f8(3,)][0.0, 0.0, 0.0]; io=[]}; var d={type=Variable; '
                                   "dims=tuple(str:'x'); shape=tuple(int:3); dtype=dtype('float64'); "
                                   "attrs=dict{}; encoding=dict{}; in_memory=True; data=['ndarray']; "
                                   'values=ndarray[<f8(3,)][1.0, 1.0, 1.0]; io=[]}}; children /=[]} '
                                   'attrs_untouched=True || locks=0 chunk_calls=[] || io=[]',
 'to_dataset coords-empty chunks=None keyword': "{type=Dataset; data_vars=['c']; coords=[]; variables=['c']; "
                                                "sizes=dict{str:'x': int:3}; attrs=dict{}; encoding=dict{}; "
                                                "indexes=[]; var c={type=Variable; dims=tuple(str:'x'); "
                                                "shape=tuple(int:3); dtype=dtype('float64'); attrs=dict{}; "
                                                "encoding=dict{}; in_memory=True; data=['ndarray']; "
                                                'values=ndarray[<f8(3,)][0.0, 0.0, 0.0]; io=[]}} '
                                                'attrs_untouched=True || locks=0 chunk_calls=[] || io=[]',
 'to_datatree coords-empty chunks=None keyword': "{type=DataTree; paths=['/']; node /={type=Dataset; "
                                                 "data_vars=['c']; coords=[]; variables=['c']; "
                                                 "sizes=dict{str:'x': int:3}; attrs=dict{}; encoding=dict{}; "
                                                 "indexes=[]; var c={type=Variable; dims=tuple(str:'x'); "
                                                 "shape=tuple(int:3); dtype=dtype('float64'); attrs=dict{}; "
                                                 "encoding=dict{}; in_memory=True; data=['ndarray']; "
                                                 'values=ndarray[<f8(3,)][0.0, 0.0, 0.0]; io=[]}}; children '
                                                 '/=[]} attrs_untouched=True || locks=0 chunk_calls=[] || '
                                                 'io=[]',
 'to_dataset coords-empty chunks=None positional': "{type=Dataset; data_vars=['c']; coords=[]; "
                                                   "variables=['c']; sizes=dict{str:'x': int:3}; "
                                                   'attrs=dict{}; encoding=dict{}; indexes=[]; var '
                                                   "c={type=Variable; dims=tuple(str:'x'); "
                                                   "shape=tuple(int:3); dtype=dtype('float64'); "
                                                   'attrs=dict{}; encoding=dict{}; in_memory=True; '
                                                   "data=['ndarray']; values=ndarray[<f8(3,)][0.0, 0.0, "
                                                   '0.0]; io=[]}} attrs_untouched=True || locks=0 '
                                                   'chunk_calls=[] || io=[]',
 'to_datatree coords-empty chunks=None positional': "{type=DataTree; paths=['/']; node /={type=Dataset; "
                                                    "data_vars=['c']; coords=[]; variables=['c']; "
                                                    "sizes=dict{str:'x': int:3}; attrs=dict{}; "
                                                    'encoding=dict{}; indexes=[]; var c={type=Variable; '
                                                    "dims=tuple(str:'x'); shape=tuple(int:3); "
                                                    "dtype=dtype('float64'); attrs=dict{}; encoding=dict{}; "
                                                    "in_memory=True; data=['ndarray']; "
                                                    'values=ndarray[<f8(3,)][0.0, 0.0, 0.0]; io=[]}}; '
                                                    'children /=[]} attrs_untouched=True || locks=0 '
                                                    'chunk_calls=[] || io=[]',
 'to_dataset coords-empty chunks=x1y2 keyword': "{type=Dataset; data_vars=['c']; coords=[]; variables=['c']; "
                                                "sizes=dict{str:'x': int:3}; attrs=dict{}; encoding=dict{}; "
                                                "indexes=[]; var c={type=Variable; dims=tuple(str:'x'); "
                                                "shape=tuple(int:3); dtype=dtype('float64'); attrs=dict{}; "
                                                "encoding=dict{}; in_memory=True; data=['ndarray']; "
                                                'values=ndarray[<f8(3,)][0.0, 0.0, 0.0]; io=[]}} '
                                                'attrs_untouched=True || locks=0 '
                                                'chunk_calls=[("tuple(dict{str:\'x\': int:1})", \'dict{}\', '
                                                "['c'])] || io=[]",
 'to_datatree coords-empty chunks=x1y2 keyword': "{type=DataTree; paths=['/']; node /={type=Dataset; "
                                                 "data_vars=['c']; coords=[]; variables=['c']; "
                                                 "sizes=dict{str:'x': int:3}; attrs=dict{}; encoding=dict{}; "
                                                 "indexes=[]; var c={type=Variable; dims=tuple(str:'x'); "
                                                 "shape=tuple(int:3); dtype=dtype('float64'); attrs=dict{}; "
                                                 "encoding=dict{}; in_memory=True; data=['ndarray']; "
                                                 'values=ndarray[<f8(3,)][0.0, 0.0, 0.0]; io=[]}}; children '
                                                 '/=[]} attrs_untouched=True || locks=0 '
                                                 'chunk_calls=[("tuple(dict{str:\'x\': int:1})", \'dict{}\', '
                                                 '[\'c\']), ("tuple(dict{str:\'x\': int:1})", \'dict{}\', '
                                                 "['c'])] || io=[]",
 'to_dataset coords-empty chunks=rows keyword': "{type=Dataset; data_vars=['c']; coords=[]; variables=['c']; "
                                                "sizes=dict{str:'x': int:3}; attrs=dict{}; encoding=dict{}; "
                                                "indexes=[]; var c={type=Variable; dims=tuple(str:'x'); "
                                                "shape=tuple(int:3); dtype=dtype('float64'); attrs=dict{}; "
                                                "encoding=dict{}; in_memory=True; data=['ndarray']; "
                                                'values=ndarray[<f8(3,)][0.0, 0.0, 0.0]; io=[]}} '
                                                'attrs_untouched=True || locks=0 '
                                                "chunk_calls=[('tuple(dict{})', 'dict{}', ['c'])] || io=[]",
 'to_datatree coords-empty chunks=rows keyword': "{type=DataTree; paths=['/']; node /={type=Dataset; "
                                                 "data_vars=['c']; coords=[]; variables=['c']; "
                                                 "sizes=dict{str:'x': int:3}; attrs=dict{}; encoding=dict{}; "
                                                 "indexes=[]; var c={type=Variable; dims=tuple(str:'x'); "
                                                 "shape=tuple(int:3); dtype=dtype('float64'); attrs=dict{}; "
                                                 "encoding=dict{}; in_memory=True; data=['ndarray']; "
                                                 'values=ndarray[<f8(3,)][0.0, 0.0, 0.0]; io=[]}}; children '
                                                 '/=[]} attrs_untouched=True || locks=0 '
                                                 "chunk_calls=[('tuple(dict{})', 'dict{}', ['c']), "
                                                 "('tuple(dict{})', 'dict{}', ['c'])] || io=[]",
 'to_dataset coords-empty chunks=rows positional': "{type=Dataset; data_vars=['c']; coords=[]; "
                                                   "variables=['c']; sizes=dict{str:'x': int:3}; "
                                                   'attrs=dict{}; encoding=dict{}; indexes=[]; var '
                                                   "c={type=Variable; dims=tuple(str:'x'); "
                                                   "shape=tuple(int:3); dtype=dtype('float64'); "
                                                   'attrs=dict{}; encoding=dict{}; in_memory=True; '
                                                   "data=['ndarray']; values=ndarray[<f8(3,)][0.0, 0.0, "
                                                   '0.0]; io=[]}} attrs_untouched=True || locks=0 '
                                                   "chunk_calls=[('tuple(dict{})', 'dict{}', ['c'])] || "
                                                   'io=[]',
 'to_datatree coords-empty chunks=rows positional': "{type=DataTree; paths=['/']; node /={type=Dataset; "
                                                    "data_vars=['c']; coords=[]; variables=['c']; "
                                                    "sizes=dict{str:'x': int:3}; attrs=dict{}; "
                                                    'encoding=dict{}; indexes=[]; var c={type=Variable; '
                                                    "dims=tuple(str:'x'); shape=tuple(int:3); "
                                                    "dtype=dtype('float64'); attrs=dict{}; encoding=dict{}; "
                                                    "in_memory=True; data=['ndarray']; "
                                                    'values=ndarray[<f8(3,)][0.0, 0.0, 0.0]; io=[]}}; '
                                                    'children /=[]} attrs_untouched=True || locks=0 '
                                                    "chunk_calls=[('tuple(dict{})', 'dict{}', ['c']), "
                                                    "('tuple(dict{})', 'dict{}', ['c'])] || io=[]",
 'to_dataset coords-empty chunks=-1 keyword': "raise builtins.AttributeError: 'int' object has no attribute "
                                              "'items' || locks=0 chunk_calls=[] || io=[]",
 'to_datatree coords-empty chunks=-1 keyword': "raise builtins.AttributeError: 'int' object has no attribute "
                                               "'items' || locks=0 chunk_calls=[] || io=[]",
 'to_dataset coords-empty chunks=-1 positional': "raise builtins.AttributeError: 'int' object has no "
                                                 "attribute 'items' || locks=0 chunk_calls=[] || io=[]",
 'to_datatree coords-empty chunks=-1 positional': "raise builtins.AttributeError: 'int' object has no "
                                                  "attribute 'items' || locks=0 chunk_calls=[] || io=[]",
 'to_dataset coords-empty default': "{type=Dataset; data_vars=['c']; coords=[]; variables=['c']; "
                                    "sizes=dict{str:'x': int:3}; attrs=dict{}; encoding=dict{}; indexes=[]; "
                                    "var c={type=Variable; dims=tuple(str:'x'); shape=tuple(int:3); "
                                    "dtype=dtype('float64'); attrs=dict{}; encoding=dict{}; in_memory=True; "
                                    "data=['ndarray']; values=ndarray[<f8(3,)][0.0, 0.0, 0.0]; io=[]}} "
                                    'attrs_untouched=True || locks=0 chunk_calls=[] || io=[]',
 'to_datatree coords-empty default': "{type=DataTree; paths=['/']; node /={type=Dataset; data_vars=['c']; "
                                     "coords=[]; variables=['c']; sizes=dict{str:'x': int:3}; attrs=dict{}; "
                                     'encoding=dict{}; indexes=[]; var c={type=Variable; '
                                     "dims=tuple(str:'x'); shape=tuple(int:3); dtype=dtype('float64'); "
                                     "attrs=dict{}; encoding=dict{}; in_memory=True; data=['ndarray']; "
                                     'values=ndarray[<f8(3,)][0.0, 0.0, 0.0]; io=[]}}; children /=[]} '
                                     'attrs_untouched=True || locks=0 chunk_calls=[] || io=[]',
 'to_dataset coords-str chunks=None keyword': "{type=Dataset; data_vars=[]; coords=['c']; variables=['c']; "
                                              "sizes=dict{str:'x': int:3}; attrs=dict{}; encoding=dict{}; "
                                              "indexes=[]; var c={type=Variable; dims=tuple(str:'x'); "
                                              "shape=tuple(int:3); dtype=dtype('float64'); attrs=dict{}; "
                                              "encoding=dict{}; in_memory=True; data=['ndarray']; "
                                              'values=ndarray[<f8(3,)][0.0, 0.0, 0.0]; io=[]}} '
                                              'attrs_untouched=True || locks=0 chunk_calls=[] || io=[]',
 'to_datatree coords-str chunks=None keyword': "{type=DataTree; paths=['/']; node /={type=Dataset; "
                                               "data_vars=[]; coords=['c']; variables=['c']; "
                                               "sizes=dict{str:'x': int:3}; attrs=dict{}; encoding=dict{}; "
                                               "indexes=[]; var c={type=Variable; dims=tuple(str:'x'); "
                                               "shape=tuple(int:3); dtype=dtype('float64'); attrs=dict{}; "
                                               "encoding=dict{}; in_memory=True; data=['ndarray']; "
                                               'values=ndarray[<f8(3,)][0.0, 0.0, 0.0]; io=[]}}; children '
                                               '/=[]} attrs_untouched=True || locks=0 chunk_calls=[] || '
                                               'io=[]',
 'to_dataset coords-str chunks=None positional': "{type=Dataset; data_vars=[]; coords=['c']; "
                                                 "variables=['c']; sizes=dict{str:'x': int:3}; attrs=dict{}; "
                                                 'encoding=dict{}; indexes=[]; var c={type=Variable; '
                                                 "dims=tuple(str:'x'); shape=tuple(int:3); "
                                                 "dtype=dtype('float64'); attrs=dict{}; encoding=dict{}; "
                                                 "in_memory=True; data=['ndarray']; "
                                                 'values=ndarray[<f8(3,)][0.0, 0.0, 0.0]; io=[]}} '
                                                 'attrs_untouched=True || locks=0 chunk_calls=[] || io=[]',
 'to_datatree coords-str chunks=None positional': "{type=DataTree; paths=['/']; node /={type=Dataset; "
                                                  "data_vars=[]; coords=['c']; variables=['c']; "
                                                  "sizes=dict{str:'x': int:3}; attrs=dict{}; "
                                                  'encoding=dict{}; indexes=[]; var c={type=Variable; '
                                                  "dims=tuple(str:'x'); shape=tuple(int:3); "
                                                  "dtype=dtype('float64'); attrs=dict{}; encoding=dict{}; "
                                                  "in_memory=True; data=['ndarray']; "
                                                  'values=ndarray[<f8(3,)][0.0, 0.0, 0.0]; io=[]}}; children '
                                                  '/=[]} attrs_untouched=True || locks=0 chunk_calls=[] || '
                                                  'io=[]',
 'to_dataset coords-str chunks=x1y2 keyword': "{type=Dataset; data_vars=[]; coords=['c']; variables=['c']; "
                                              "sizes=dict{str:'x': int:3}; attrs=dict{}; encoding=dict{}; "
                                              "indexes=[]; var c={type=Variable; dims=tuple(str:'x'); "
                                              "shape=tuple(int:3); dtype=dtype('float64'); attrs=dict{}; "
                                              "encoding=dict{}; in_memory=True; data=['ndarray']; "
                                              'values=ndarray[<f8(3,)][0.0, 0.0, 0.0]; io=[]}} '
                                              'attrs_untouched=True || locks=0 '
                                              'chunk_calls=[("tuple(dict{str:\'x\': int:1})", \'dict{}\', '
                                              "['c'])] || io=[]",
 'to_datatree coords-str chunks=x1y2 keyword': "{type=DataTree; paths=['/']; node /={type=Dataset; "
                                               "data_vars=[]; coords=['c']; variables=['c']; "
                                               "sizes=dict{str:'x': int:3}; attrs=dict{}; encoding=dict{}; "
                                               "indexes=[]; var c={type=Variable; dims=tuple(str:'x'); "
                                               "shape=tuple(int:3); dtype=dtype('float64'); attrs=dict{}; "
                                               "encoding=dict{}; in_memory=True; data=['ndarray']; "
                                               'values=ndarray[<f8(3,)][0.0, 0.0, 0.0]; io=[]}}; children '
                                               '/=[]} attrs_untouched=True || locks=0 '
                                               'chunk_calls=[("tuple(dict{str:\'x\': int:1})", \'dict{}\', '
                                               '[\'c\']), ("tuple(dict{str:\'x\': int:1})", \'dict{}\', '
                                               "['c'])] || io=[]",
 'to_dataset coords-str chunks=rows keyword': "{type=Dataset; data_vars=[]; coords=['c']; variables=['c']; "
                                              "sizes=dict{str:'x': int:3}; attrs=dict{}; encoding=dict{}; "
                                              "indexes=[]; var c={type=Variable; dims=tuple(str:'x'); "
                                              "shape=tuple(int:3); dtype=dtype('float64'); attrs=dict{}; "
                                              "encoding=dict{}; in_memory=True; data=['ndarray']; "
                                              'values=ndarray[<f8(3,)][0.0, 0.0, 0.0]; io=[]}} '
                                              'attrs_untouched=True || locks=0 '
                                              "chunk_calls=[('tuple(dict{})', 'dict{}', ['c'])] || io=[]",
 'to_datatree coords-str chunks=rows keyword': "{type=DataTree; paths=['/']; node /={type=Dataset; "
                                               "data_vars=[]; coords=['c']; variables=['c']; "
                                               "sizes=dict{str:'x': int:3}; attrs=dict{}; encoding=dict{}; "
                                               "indexes=[]; var c={type=Variable; dims=tuple(str:'x'); "
                                               "shape=tuple(int:3); dtype=dtype('float64'); attrs=dict{}; "
                                               "encoding=dict{}; in_memory=True; data=['ndarray']; "
                                               'values=ndarray[<f8(3,)][0.0, 0.0, 0.0]; io=[]}}; children '
                                               '/=[]} attrs_untouched=True || locks=0 '
                                               "chunk_calls=[('tuple(dict{})', 'dict{}', ['c']), "
                                               "('tuple(dict{})', 'dict{}', ['c'])] || io=[]",
 'to_dataset coords-str chunks=rows positional': "{type=Dataset; data_vars=[]; coords=['c']; "
                                                 "variables=['c']; sizes=dict{str:'x': int:3}; attrs=dict{}; "
                                                 'encoding=dict{}; indexes=[]; var c={type=Variable; '
                                                 "dims=tuple(str:'x'); shape=tuple(int:3); "
                                                 "dtype=dtype('float64'); attrs=dict{}; encoding=dict{}; "
                                                 "in_memory=True; data=['ndarray']; "
                                                 'values=ndarray[<f8(3,)][0.0, 0.0, 0.0]; io=[]}} '
                                                 'attrs_untouched=True || locks=0 '
                                                 "chunk_calls=[('tuple(dict{})', 'dict{}', ['c'])] || io=[]",
 'to_datatree coords-str chunks=rows positional': "{type=DataTree; paths=['/']; node /={type=Dataset; "
                                                  "data_vars=[]; coords=['c']; variables=['c']; "
                                                  "sizes=dict{str:'x': int:3}; attrs=dict{}; "
                                                  'encoding=dict{}; indexes=[]; var c={type=Variable; '
                                                  "dims=tuple(str:'x'); shape=tuple(int:3); "
                                                  "dtype=dtype('float64'); attrs=dict{}; encoding=dict{}; "
                                                  "in_memory=True; data=['ndarray']; "
                                                  'values=ndarray[<f8(3,)][0.0, 0.0, 0.0]; io=[]}}; children '
                                                  '/=[]} attrs_untouched=True || locks=0 '
                                                  "chunk_calls=[('tuple(dict{})', 'dict{}', ['c']), "
                                                  "('tuple(dict{})', 'dict{}', ['c'])] || io=[]",
 'to_dataset coords-str chunks=-1 keyword': "raise builtins.AttributeError: 'int' object has no attribute "
                                            "'items' || locks=0 chunk_calls=[] || io=[]",
 'to_datatree coords-str chunks=-1 keyword': "raise builtins.AttributeError: 'int' object has no attribute "
                                             "'items' || locks=0 chunk_calls=[] || io=[]",
 'to_dataset coords-str chunks=-1 positional': "raise builtins.AttributeError: 'int' object has no attribute "
                                               "'items' || locks=0 chunk_calls=[] || io=[]",
 'to_datatree coords-str chunks=-1 positional': "raise builtins.AttributeError: 'int' object has no "
                                                "attribute 'items' || locks=0 chunk_calls=[] || io=[]",
 'to_dataset coords-str default': "{type=Dataset; data_vars=[]; coords=['c']; variables=['c']; "
                                  "sizes=dict{str:'x': int:3}; attrs=dict{}; encoding=dict{}; indexes=[]; "
                                  "var c={type=Variable; dims=tuple(str:'x'); shape=tuple(int:3); "
                                  "dtype=dtype('float64'); attrs=dict{}; encoding=dict{}; in_memory=True; "
                                  "data=['ndarray']; values=ndarray[<f8(3,)][0.0, 0.0, 0.0]; io=[]}} "
                                  'attrs_untouched=True || locks=0 chunk_calls=[] || io=[]',
 'to_datatree coords-str default': "{type=DataTree; paths=['/']; node /={type=Dataset; data_vars=[]; "
                                   "coords=['c']; variables=['c']; sizes=dict{str:'x': int:3}; attrs=dict{}; "
                                   "encoding=dict{}; indexes=[]; var c={type=Variable; dims=tuple(str:'x'); "
                                   "shape=tuple(int:3); dtype=dtype('float64'); attrs=dict{}; "
                                   "encoding=dict{}; in_memory=True; data=['ndarray']; "
                                   'values=ndarray[<f8(3,)][0.0, 0.0, 0.0]; io=[]}}; children /=[]} '
                                   'attrs_untouched=True || locks=0 chunk_calls=[] || io=[]',
 'to_dataset coords-missing chunks=None keyword': 'raise builtins.ValueError: These variables cannot be '
                                                  "found in this dataset: ['nope'] || locks=0 chunk_calls=[] "
                                                  '|| io=[]',
 'to_datatree coords-missing chunks=None keyword': 'raise builtins.ValueError: These variables cannot be '
                                                   "found in this dataset: ['nope'] || locks=0 "
                                                   'chunk_calls=[] || io=[]',
 'to_dataset coords-missing chunks=None positional': 'raise builtins.ValueError: These variables cannot be '
                                                     "found in this dataset: ['nope'] || locks=0 "
                                                     'chunk_calls=[] || io=[]',
 'to_datatree coords-missing chunks=None positional': 'raise builtins.ValueError: These variables cannot be '
                                                      "found in this dataset: ['nope'] || locks=0 "
                                                      'chunk_calls=[] || io=[]',
 'to_dataset coords-missing chunks=x1y2 keyword': 'raise builtins.ValueError: These variables cannot be '
                                                  "found in this dataset: ['nope'] || locks=0 chunk_calls=[] "
                                                  '|| io=[]',
 'to_datatree coords-missing chunks=x1y2 keyword': 'raise builtins.ValueError: These variables cannot be '
                                                   "found in this dataset: ['nope'] || locks=0 "
                                                   'chunk_calls=[] || io=[]',
 'to_dataset coords-missing chunks=rows keyword': 'raise builtins.ValueError: These variables cannot be '
                                                  "found in this dataset: ['nope'] || locks=0 chunk_calls=[] "
                                                  '|| io=[]',
 'to_datatree coords-missing chunks=rows keyword': 'raise builtins.ValueError: These variables cannot be '
                                                   "found in this dataset: ['nope'] || locks=0 "
                                                   'chunk_calls=[] || io=[]',
 'to_dataset coords-missing chunks=rows positional': 'raise builtins.ValueError: These variables cannot be '
                                                     "found in this dataset: ['nope'] || locks=0 "
                                                     'chunk_calls=[] || io=[]',
 'to_datatree coords-missing chunks=rows positional': 'raise builtins.ValueError: These variables cannot be '
                                                      "found in this dataset: ['nope'] || locks=0 "
                                                      'chunk_calls=[] || io=[]',
 'to_dataset coords-missing chunks=-1 keyword': 'raise builtins.ValueError: These variables cannot be found '
                                                "in this dataset: ['nope'] || locks=0 chunk_calls=[] || "
                                                'io=[]',
 'to_datatree coords-missing chunks=-1 keyword': 'raise builtins.ValueError: These variables cannot be found '
                                                 "in this dataset: ['nope'] || locks=0 chunk_calls=[] || "
                                                 'io=[]',
 'to_dataset coords-missing chunks=-1 positional': 'raise builtins.ValueError: These variables cannot be '
                                                   "found in this dataset: ['nope'] || locks=0 "
                                                   'chunk_calls=[] || io=[]',
 'to_datatree coords-missing chunks=-1 positional': 'raise builtins.ValueError: These variables cannot be '
                                                    "found in this dataset: ['nope'] || locks=0 "
                                                    'chunk_calls=[] || io=[]',
 'to_dataset coords-missing default': 'raise builtins.ValueError: These variables cannot be found in this '
                                      "dataset: ['nope'] || locks=0 chunk_calls=[] || io=[]",
 'to_datatree coords-missing default': 'raise builtins.ValueError: These variables cannot be found in this '
                                       "dataset: ['nope'] || locks=0 chunk_calls=[] || io=[]",
 'to_dataset coords-none chunks=None keyword': 'raise builtins.ValueError: These variables cannot be found '
                                               'in this dataset: [None] || locks=0 chunk_calls=[] || io=[]',
 'to_datatree coords-none chunks=None keyword': 'raise builtins.ValueError: These variables cannot be found '
                                                'in this dataset: [None] || locks=0 chunk_calls=[] || io=[]',
 'to_dataset coords-none chunks=None positional': 'raise builtins.ValueError: These variables cannot be '
                                                  'found in this dataset: [None] || locks=0 chunk_calls=[] '
                                                  '|| io=[]',
 'to_datatree coords-none chunks=None positional': 'raise builtins.ValueError: These variables cannot be '
                                                   'found in this dataset: [None] || locks=0 chunk_calls=[] '
                                                   '|| io=[]',
 'to_dataset coords-none chunks=x1y2 keyword': 'raise builtins.ValueError: These variables cannot be found '
                                               'in this dataset: [None] || locks=0 chunk_calls=[] || io=[]',
 'to_datatree coords-none chunks=x1y2 keyword': 'raise builtins.ValueError: These variables cannot be found '
                                                'in this dataset: [None] || locks=0 chunk_calls=[] || io=[]',
 'to_dataset coords-none chunks=rows keyword': 'raise builtins.ValueError: These variables cannot be found '
                                               'in this dataset: [None] || locks=0 chunk_calls=[] || io=[]',
 'to_datatree coords-none chunks=rows keyword': 'raise builtins.ValueError: These variables cannot be found '
                                                'in this dataset: [None] || locks=0 chunk_calls=[] || io=[]',
 'to_dataset coords-none chunks=rows positional': 'raise builtins.ValueError: These variables cannot be '
                                                  'found in this dataset: [None] || locks=0 chunk_calls=[] '
                                                  '|| io=[]',
 'to_datatree coords-none chunks=rows positional': 'raise builtins.ValueError: These variables cannot be '
                                                   'found in this dataset: [None] || locks=0 chunk_calls=[] '
                                                   '|| io=[]',
 'to_dataset coords-none chunks=-1 keyword': 'raise builtins.ValueError: These variables cannot be found in '
                                             'this dataset: [None] || locks=0 chunk_calls=[] || io=[]',
 'to_datatree coords-none chunks=-1 keyword': 'raise builtins.ValueError: These variables cannot be found in '
                                              'this dataset: [None] || locks=0 chunk_calls=[] || io=[]',
 'to_dataset coords-none chunks=-1 positional': 'raise builtins.ValueError: These variables cannot be found '
                                                'in this dataset: [None] || locks=0 chunk_calls=[] || io=[]',
 'to_datatree coords-none chunks=-1 positional': 'raise builtins.ValueError: These variables cannot be found '
                                                 'in this dataset: [None] || locks=0 chunk_calls=[] || io=[]',
 'to_dataset coords-none default': 'raise builtins.ValueError: These variables cannot be found in this '
                                   'dataset: [None] || locks=0 chunk_calls=[] || io=[]',
 'to_datatree coords-none default': 'raise builtins.ValueError: These variables cannot be found in this '
                                    'dataset: [None] || locks=0 chunk_calls=[] || io=[]',
 'to_dataset lazy chunks=None keyword': "{type=Dataset; data_vars=['data', 'other']; coords=['rows', "
                                        "'meta']; variables=['data', 'other', 'rows', 'meta']; "
                                        "sizes=dict{str:'rows': int:4, str:'cols': int:6}; "
                                        "attrs=dict{str:'title': str:'lazy'}; encoding=dict{}; "
                                        "indexes=['rows']; var data={type=Variable; dims=tuple(str:'rows', "
                                        "str:'cols'); shape=tuple(int:4, int:6); dtype=dtype('uint16'); "
                                        "attrs=dict{str:'units': str:'dn'}; "
                                        "encoding=dict{str:'preferred_chunksizes': dict{str:'rows': int:3, "
                                        "str:'cols': int:6}}; in_memory=False; data=['LazilyIndexedArray', "
                                        "'LazilyIndexedWrapper', 'Array']; wrapper=('tuple(int:4, int:6)', "
                                        '"dtype(\'uint16\')", \'SerializableLock\', \'Array\'); '
                                        'values=ndarray[<u2(4, 6)][[0, 3, 6, 9, 12, 15], [18, 21, 24, 27, '
                                        '30, 33], [36, 39, 42, 45, 48, 51], [54, 57, 60, 63, 66, 69]]; '
                                        "io=[('open', ('file-4x6-3-uint16',), {'mode': 'rb'}), 'enter', "
                                        "('seek', (16,), {}), ('read', (68,), {}), ('seek', (100,), {}), "
                                        "('read', (12,), {}), 'exit']}; var other={type=Variable; "
                                        "dims=tuple(str:'rows', str:'cols'); shape=tuple(int:4, int:6); "
                                        "dtype=dtype('uint16'); attrs=dict{}; "
                                        "encoding=dict{str:'preferred_chunksizes': dict{str:'rows': int:1, "
                                        "str:'cols': int:6}}; in_memory=False; data=['LazilyIndexedArray', "
                                        "'LazilyIndexedWrapper', 'Array']; wrapper=('tuple(int:4, int:6)', "
                                        '"dtype(\'uint16\')", \'SerializableLock\', \'Array\'); '
                                        'values=ndarray[<u2(4, 6)][[0, 3, 6, 9, 12, 15], [18, 21, 24, 27, '
                                        '30, 33], [36, 39, 42, 45, 48, 51], [54, 57, 60, 63, 66, 69]]; '
                                        "io=[('open', ('second',), {'mode': 'rb'}), 'enter', ('seek', (16,), "
                                        "{}), ('read', (12,), {}), ('seek', (44,), {}), ('read', (12,), {}), "
                                        "('seek', (72,), {}), ('read', (12,), {}), ('seek', (100,), {}), "
                                        "('read', (12,), {}), 'exit']}; var rows={type=IndexVariable; "
                                        "dims=tuple(str:'rows'); shape=tuple(int:4); dtype=dtype('float64'); "
                                        'attrs=dict{}; encoding=dict{}; in_memory=True; '
                                        "data=['PandasIndexingAdapter', 'Index', 'NumpyExtensionArray']; "
                                        'values=ndarray[<f8(4,)][0.0, 2.5, 5.0, 7.5]; io=[]}; var '
                                        "meta={type=Variable; dims=tuple(str:'rows'); shape=tuple(int:4); "
                                        "dtype=dtype('uint16'); attrs=dict{}; "
                                        "encoding=dict{str:'preferred_chunksizes': dict{str:'rows': int:2}}; "
                                        "in_memory=False; data=['LazilyIndexedArray', "
                                        "'LazilyIndexedWrapper', 'Array']; wrapper=('tuple(int:4)', "
                                        '"dtype(\'uint16\')", \'SerializableLock\', \'Array\'); '
                                        "values=ndarray[<u2(4, 1)][[0], [3], [6], [9]]; io=[('open', "
                                        "('file-4-2-uint16',), {'mode': 'rb'}), 'enter', ('seek', (16,), "
                                        "{}), ('read', (20,), {}), ('seek', (52,), {}), ('read', (20,), {}), "
                                        "'exit']}} attrs_untouched=True || locks=3 chunk_calls=[] || io=[]",
 'to_datatree lazy chunks=None keyword': "{type=DataTree; paths=['/']; node /={type=Dataset; "
                                         "data_vars=['data', 'other']; coords=['rows', 'meta']; "
                                         "variables=['data', 'other', 'rows', 'meta']; "
                                         "sizes=dict{str:'rows': int:4, str:'cols': int:6}; "
                                         "attrs=dict{str:'title': str:'lazy'}; encoding=dict{}; "
                                         "indexes=['rows']; var data={type=Variable; dims=tuple(str:'rows', "
                                         "str:'cols'); shape=tuple(int:4, int:6); dtype=dtype('uint16'); "
                                         "attrs=dict{str:'units': str:'dn'}; "
                                         "encoding=dict{str:'preferred_chunksizes': dict{str:'rows': int:3, "
                                         "str:'cols': int:6}}; in_memory=False; data=['LazilyIndexedArray', "
                                         "'LazilyIndexedWrapper', 'Array']; wrapper=('tuple(int:4, int:6)', "
                                         '"dtype(\'uint16\')", \'SerializableLock\', \'Array\'); '
                                         'values=ndarray[<u2(4, 6)][[0, 3, 6, 9, 12, 15], [18, 21, 24, 27, '
                                         '30, 33], [36, 39, 42, 45, 48, 51], [54, 57, 60, 63, 66, 69]]; '
                                         "io=[('open', ('file-4x6-3-uint16',), {'mode': 'rb'}), 'enter', "
                                         "('seek', (16,), {}), ('read', (68,), {}), ('seek', (100,), {}), "
                                         "('read', (12,), {}), 'exit']}; var other={type=Variable; "
                                         "dims=tuple(str:'rows', str:'cols'); shape=tuple(int:4, int:6); "
                                         "dtype=dtype('uint16'); attrs=dict{}; "
                                         "encoding=dict{str:'preferred_chunksizes': dict{str:'rows': int:1, "
                                         "str:'cols': int:6}}; in_memory=False; data=['LazilyIndexedArray', "
                                         "'LazilyIndexedWrapper', 'Array']; wrapper=('tuple(int:4, int:6)', "
                                         '"dtype(\'uint16\')", \'SerializableLock\', \'Array\'); '
                                         'values=ndarray[<u2(4, 6)][[0, 3, 6, 9, 12, 15], [18, 21, 24, 27, '
                                         '30, 33], [36, 39, 42, 45, 48, 51], [54, 57, 60, 63, 66, 69]]; '
                                         "io=[('open', ('second',), {'mode': 'rb'}), 'enter', ('seek', "
                                         "(16,), {}), ('read', (12,), {}), ('seek', (44,), {}), ('read', "
                                         "(12,), {}), ('seek', (72,), {}), ('read', (12,), {}), ('seek', "
                                         "(100,), {}), ('read', (12,), {}), 'exit']}; var "
                                         "rows={type=IndexVariable; dims=tuple(str:'rows'); "
                                         "shape=tuple(int:4); dtype=dtype('float64'); attrs=dict{}; "
                                         "encoding=dict{}; in_memory=True; data=['PandasIndexingAdapter', "
                                         "'Index', 'NumpyExtensionArray']; values=ndarray[<f8(4,)][0.0, 2.5, "
                                         '5.0, 7.5]; io=[]}; var meta={type=Variable; '
                                         "dims=tuple(str:'rows'); shape=tuple(int:4); dtype=dtype('uint16'); "
                                         "attrs=dict{}; encoding=dict{str:'preferred_chunksizes': "
                                         "dict{str:'rows': int:2}}; in_memory=False; "
                                         "data=['LazilyIndexedArray', 'LazilyIndexedWrapper', 'Array']; "
                                         'wrapper=(\'tuple(int:4)\', "dtype(\'uint16\')", '
                                         "'SerializableLock', 'Array'); values=ndarray[<u2(4, 1)][[0], [3], "
                                         "[6], [9]]; io=[('open', ('file-4-2-uint16',), {'mode': 'rb'}), "
                                         "'enter', ('seek', (16,), {}), ('read', (20,), {}), ('seek', (52,), "
                                         "{}), ('read', (20,), {}), 'exit']}}; children /=[]} "
                                         'attrs_untouched=True || locks=6 chunk_calls=[] || io=[]',
 'to_dataset lazy chunks=None positional': "{type=Dataset; data_vars=['data', 'other']; coords=['rows', "
                                           "'meta']; variables=['data', 'other', 'rows', 'meta']; "
                                           "sizes=dict{str:'rows': int:4, str:'cols': int:6}; "
                                           "attrs=dict{str:'title': str:'lazy'}; encoding=dict{}; "
                                           "indexes=['rows']; var data={type=Variable; "
                                           "dims=tuple(str:'rows', str:'cols'); shape=tuple(int:4, int:6); "
                                           "dtype=dtype('uint16'); attrs=dict{str:'units': str:'dn'}; "
                                           "encoding=dict{str:'preferred_chunksizes': dict{str:'rows': "
                                           "int:3, str:'cols': int:6}}; in_memory=False; "
                                           "data=['LazilyIndexedArray', 'LazilyIndexedWrapper', 'Array']; "
                                           'wrapper=(\'tuple(int:4, int:6)\', "dtype(\'uint16\')", '
                                           "'SerializableLock', 'Array'); values=ndarray[<u2(4, 6)][[0, 3, "
                                           '6, 9, 12, 15], [18, 21, 24, 27, 30, 33], [36, 39, 42, 45, 48, '
                                           "51], [54, 57, 60, 63, 66, 69]]; io=[('open', "
                                           "('file-4x6-3-uint16',), {'mode': 'rb'}), 'enter', ('seek', "
                                           "(16,), {}), ('read', (68,), {}), ('seek', (100,), {}), ('read', "
                                           "(12,), {}), 'exit']}; var other={type=Variable; "
                                           "dims=tuple(str:'rows', str:'cols'); shape=tuple(int:4, int:6); "
                                           "dtype=dtype('uint16'); attrs=dict{}; "
                                           "encoding=dict{str:'preferred_chunksizes': dict{str:'rows': "
                                           "int:1, str:'cols': int:6}}; in_memory=False; "
                                           "data=['LazilyIndexedArray', 'LazilyIndexedWrapper', 'Array']; "
                                           'wrapper=(\'tuple(int:4, int:6)\', "dtype(\'uint16\')", '
                                           "'SerializableLock', 'Array'); values=ndarray[<u2(4, 6)][[0, 3, "
                                           '6, 9, 12, 15], [18, 21, 24, 27, 30, 33], [36, 39, 42, 45, 48, '
                                           "51], [54, 57, 60, 63, 66, 69]]; io=[('open', ('second',), "
                                           "{'mode': 'rb'}), 'enter', ('seek', (16,), {}), ('read', (12,), "
                                           "{}), ('seek', (44,), {}), ('read', (12,), {}), ('seek', (72,), "
                                           "{}), ('read', (12,), {}), ('seek', (100,), {}), ('read', (12,), "
                                           "{}), 'exit']}; var rows={type=IndexVariable; "
                                           "dims=tuple(str:'rows'); shape=tuple(int:4); "
                                           "dtype=dtype('float64'); attrs=dict{}; encoding=dict{}; "
                                           "in_memory=True; data=['PandasIndexingAdapter', 'Index', "
                                           "'NumpyExtensionArray']; values=ndarray[<f8(4,)][0.0, 2.5, 5.0, "
                                           "7.5]; io=[]}; var meta={type=Variable; dims=tuple(str:'rows'); "
                                           "shape=tuple(int:4); dtype=dtype('uint16'); attrs=dict{}; "
                                           "encoding=dict{str:'preferred_chunksizes': dict{str:'rows': "
                                           "int:2}}; in_memory=False; data=['LazilyIndexedArray', "
                                           "'LazilyIndexedWrapper', 'Array']; wrapper=('tuple(int:4)', "
                                           '"dtype(\'uint16\')", \'SerializableLock\', \'Array\'); '
                                           "values=ndarray[<u2(4, 1)][[0], [3], [6], [9]]; io=[('open', "
                                           "('file-4-2-uint16',), {'mode': 'rb'}), 'enter', ('seek', (16,), "
                                           "{}), ('read', (20,), {}), ('seek', (52,), {}), ('read', (20,), "
                                           "{}), 'exit']}} attrs_untouched=True || locks=3 chunk_calls=[] || "
                                           'io=[]',
 'to_datatree lazy chunks=None positional': "{type=DataTree; paths=['/']; node /={type=Dataset; "
                                            "data_vars=['data', 'other']; coords=['rows', 'meta']; "
                                            "variables=['data', 'other', 'rows', 'meta']; "
                                            "sizes=dict{str:'rows': int:4, str:'cols': int:6}; "
                                            "attrs=dict{str:'title': str:'lazy'}; encoding=dict{}; "
                                            "indexes=['rows']; var data={type=Variable; "
                                            "dims=tuple(str:'rows', str:'cols'); shape=tuple(int:4, int:6); "
                                            "dtype=dtype('uint16'); attrs=dict{str:'units': str:'dn'}; "
                                            "encoding=dict{str:'preferred_chunksizes': dict{str:'rows': "
                                            "int:3, str:'cols': int:6}}; in_memory=False; "
                                            "data=['LazilyIndexedArray', 'LazilyIndexedWrapper', 'Array']; "
                                            'wrapper=(\'tuple(int:4, int:6)\', "dtype(\'uint16\')", '
                                            "'SerializableLock', 'Array'); values=ndarray[<u2(4, 6)][[0, 3, "
                                            '6, 9, 12, 15], [18, 21, 24, 27, 30, 33], [36, 39, 42, 45, 48, '
                                            "51], [54, 57, 60, 63, 66, 69]]; io=[('open', "
                                            "('file-4x6-3-uint16',), {'mode': 'rb'}), 'enter', ('seek', "
                                            "(16,), {}), ('read', (68,), {}), ('seek', (100,), {}), ('read', "
                                            "(12,), {}), 'exit']}; var other={type=Variable; "
                                            "dims=tuple(str:'rows', str:'cols'); shape=tuple(int:4, int:6); "
                                            "dtype=dtype('uint16'); attrs=dict{}; "
                                            "encoding=dict{str:'preferred_chunksizes': dict{str:'rows': "
                                            "int:1, str:'cols': int:6}}; in_memory=False; "
                                            "data=['LazilyIndexedArray', 'LazilyIndexedWrapper', 'Array']; "
                                            'wrapper=(\'tuple(int:4, int:6)\', "dtype(\'uint16\')", '
                                            "'SerializableLock', 'Array'); values=ndarray[<u2(4, 6)][[0, 3, "
                                            '6, 9, 12, 15], [18, 21, 24, 27, 30, 33], [36, 39, 42, 45, 48, '
                                            "51], [54, 57, 60, 63, 66, 69]]; io=[('open', ('second',), "
                                            "{'mode': 'rb'}), 'enter', ('seek', (16,), {}), ('read', (12,), "
                                            "{}), ('seek', (44,), {}), ('read', (12,), {}), ('seek', (72,), "
                                            "{}), ('read', (12,), {}), ('seek', (100,), {}), ('read', (12,), "
                                            "{}), 'exit']}; var rows={type=IndexVariable; "
                                            "dims=tuple(str:'rows'); shape=tuple(int:4); "
                                            "dtype=dtype('float64'); attrs=dict{}; encoding=dict{}; "
                                            "in_memory=True; data=['PandasIndexingAdapter', 'Index', "
                                            "'NumpyExtensionArray']; values=ndarray[<f8(4,)][0.0, 2.5, 5.0, "
                                            "7.5]; io=[]}; var meta={type=Variable; dims=tuple(str:'rows'); "
                                            "shape=tuple(int:4); dtype=dtype('uint16'); attrs=dict{}; "
                                            "encoding=dict{str:'preferred_chunksizes': dict{str:'rows': "
                                            "int:2}}; in_memory=False; data=['LazilyIndexedArray', "
                                            "'LazilyIndexedWrapper', 'Array']; wrapper=('tuple(int:4)', "
                                            '"dtype(\'uint16\')", \'SerializableLock\', \'Array\'); '
                                            "values=ndarray[<u2(4, 1)][[0], [3], [6], [9]]; io=[('open', "
                                            "('file-4-2-uint16',), {'mode': 'rb'}), 'enter', ('seek', (16,), "
                                            "{}), ('read', (20,), {}), ('seek', (52,), {}), ('read', (20,), "
                                            "{}), 'exit']}}; children /=[]} attrs_untouched=True || locks=6 "
                                            'chunk_calls=[] || io=[]',
 'to_dataset lazy chunks={} keyword': "{type=Dataset; data_vars=['data', 'other']; coords=['rows', 'meta']; "
                                      "variables=['data', 'other', 'rows', 'meta']; sizes=dict{str:'rows': "
                                      "int:4, str:'cols': int:6}; attrs=dict{str:'title': str:'lazy'}; "
                                      "encoding=dict{}; indexes=['rows']; var data={type=Variable; "
                                      "dims=tuple(str:'rows', str:'cols'); shape=tuple(int:4, int:6); "
                                      "dtype=dtype('uint16'); attrs=dict{str:'units': str:'dn'}; "
                                      "encoding=dict{str:'preferred_chunksizes': dict{str:'rows': int:3, "
                                      "str:'cols': int:6}}; in_memory=False; data=['LazilyIndexedArray', "
                                      "'LazilyIndexedWrapper', 'Array']; wrapper=('tuple(int:4, int:6)', "
                                      '"dtype(\'uint16\')", \'SerializableLock\', \'Array\'); '
                                      'values=ndarray[<u2(4, 6)][[0, 3, 6, 9, 12, 15], [18, 21, 24, 27, 30, '
                                      '33], [36, 39, 42, 45, 48, 51], [54, 57, 60, 63, 66, 69]]; '
                                      "io=[('open', ('file-4x6-3-uint16',), {'mode': 'rb'}), 'enter', "
                                      "('seek', (16,), {}), ('read', (68,), {}), ('seek', (100,), {}), "
                                      "('read', (12,), {}), 'exit']}; var other={type=Variable; "
                                      "dims=tuple(str:'rows', str:'cols'); shape=tuple(int:4, int:6); "
                                      "dtype=dtype('uint16'); attrs=dict{}; "
                                      "encoding=dict{str:'preferred_chunksizes': dict{str:'rows': int:1, "
                                      "str:'cols': int:6}}; in_memory=False; data=['LazilyIndexedArray', "
                                      "'LazilyIndexedWrapper', 'Array']; wrapper=('tuple(int:4, int:6)', "
                                      '"dtype(\'uint16\')", \'SerializableLock\', \'Array\'); '
                                      'values=ndarray[<u2(4, 6)][[0, 3, 6, 9, 12, 15], [18, 21, 24, 27, 30, '
                                      '33], [36, 39, 42, 45, 48, 51], [54, 57, 60, 63, 66, 69]]; '
                                      "io=[('open', ('second',), {'mode': 'rb'}), 'enter', ('seek', (16,), "
                                      "{}), ('read', (12,), {}), ('seek', (44,), {}), ('read', (12,), {}), "
                                      "('seek', (72,), {}), ('read', (12,), {}), ('seek', (100,), {}), "
                                      "('read', (12,), {}), 'exit']}; var rows={type=IndexVariable; "
                                      "dims=tuple(str:'rows'); shape=tuple(int:4); dtype=dtype('float64'); "
                                      'attrs=dict{}; encoding=dict{}; in_memory=True; '
                                      "data=['PandasIndexingAdapter', 'Index', 'NumpyExtensionArray']; "
                                      'values=ndarray[<f8(4,)][0.0, 2.5, 5.0, 7.5]; io=[]}; var '
                                      "meta={type=Variable; dims=tuple(str:'rows'); shape=tuple(int:4); "
                                      "dtype=dtype('uint16'); attrs=dict{}; "
                                      "encoding=dict{str:'preferred_chunksizes': dict{str:'rows': int:2}}; "
                                      "in_memory=False; data=['LazilyIndexedArray', 'LazilyIndexedWrapper', "
                                      '\'Array\']; wrapper=(\'tuple(int:4)\', "dtype(\'uint16\')", '
                                      "'SerializableLock', 'Array'); values=ndarray[<u2(4, 1)][[0], [3], "
                                      "[6], [9]]; io=[('open', ('file-4-2-uint16',), {'mode': 'rb'}), "
                                      "'enter', ('seek', (16,), {}), ('read', (20,), {}), ('seek', (52,), "
                                      "{}), ('read', (20,), {}), 'exit']}} attrs_untouched=True || locks=3 "
                                      "chunk_calls=[('tuple(dict{})', 'dict{}', ['data', 'other', 'rows', "
                                      "'meta'])] || io=[]",
 'to_datatree lazy chunks={} keyword': "{type=DataTree; paths=['/']; node /={type=Dataset; "
                                       "data_vars=['data', 'other']; coords=['rows', 'meta']; "
                                       "variables=['data', 'other', 'rows', 'meta']; sizes=dict{str:'rows': "
                                       "int:4, str:'cols': int:6}; attrs=dict{str:'title': str:'lazy'}; "
                                       "encoding=dict{}; indexes=['rows']; var data={type=Variable; "
                                       "dims=tuple(str:'rows', str:'cols'); shape=tuple(int:4, int:6); "
                                       "dtype=dtype('uint16'); attrs=dict{str:'units': str:'dn'}; "
                                       "encoding=dict{str:'preferred_chunksizes': dict{str:'rows': int:3, "
                                       "str:'cols': int:6}}; in_memory=False; data=['LazilyIndexedArray', "
                                       "'LazilyIndexedWrapper', 'Array']; wrapper=('tuple(int:4, int:6)', "
                                       '"dtype(\'uint16\')", \'SerializableLock\', \'Array\'); '
                                       'values=ndarray[<u2(4, 6)][[0, 3, 6, 9, 12, 15], [18, 21, 24, 27, 30, '
                                       '33], [36, 39, 42, 45, 48, 51], [54, 57, 60, 63, 66, 69]]; '
                                       "io=[('open', ('file-4x6-3-uint16',), {'mode': 'rb'}), 'enter', "
                                       "('seek', (16,), {}), ('read', (68,), {}), ('seek', (100,), {}), "
                                       "('read', (12,), {}), 'exit']}; var other={type=Variable; "
                                       "dims=tuple(str:'rows', str:'cols'); shape=tuple(int:4, int:6); "
                                       "dtype=dtype('uint16'); attrs=dict{}; "
                                       "encoding=dict{str:'preferred_chunksizes': dict{str:'rows': int:1, "
                                       "str:'cols': int:6}}; in_memory=False; data=['LazilyIndexedArray', "
                                       "'LazilyIndexedWrapper', 'Array']; wrapper=('tuple(int:4, int:6)', "
                                       '"dtype(\'uint16\')", \'SerializableLock\', \'Array\'); '
                                       'values=ndarray[<u2(4, 6)][[0, 3, 6, 9, 12, 15], [18, 21, 24, 27, 30, '
                                       '33], [36, 39, 42, 45, 48, 51], [54, 57, 60, 63, 66, 69]]; '
                                       "io=[('open', ('second',), {'mode': 'rb'}), 'enter', ('seek', (16,), "
                                       "{}), ('read', (12,), {}), ('seek', (44,), {}), ('read', (12,), {}), "
                                       "('seek', (72,), {}), ('read', (12,), {}), ('seek', (100,), {}), "
                                       "('read', (12,), {}), 'exit']}; var rows={type=IndexVariable; "
                                       "dims=tuple(str:'rows'); shape=tuple(int:4); dtype=dtype('float64'); "
                                       'attrs=dict{}; encoding=dict{}; in_memory=True; '
                                       "data=['PandasIndexingAdapter', 'Index', 'NumpyExtensionArray']; "
                                       'values=ndarray[<f8(4,)][0.0, 2.5, 5.0, 7.5]; io=[]}; var '
                                       "meta={type=Variable; dims=tuple(str:'rows'); shape=tuple(int:4); "
                                       "dtype=dtype('uint16'); attrs=dict{}; "
                                       "encoding=dict{str:'preferred_chunksizes': dict{str:'rows': int:2}}; "
                                       "in_memory=False; data=['LazilyIndexedArray', 'LazilyIndexedWrapper', "
                                       '\'Array\']; wrapper=(\'tuple(int:4)\', "dtype(\'uint16\')", '
                                       "'SerializableLock', 'Array'); values=ndarray[<u2(4, 1)][[0], [3], "
                                       "[6], [9]]; io=[('open', ('file-4-2-uint16',), {'mode': 'rb'}), "
                                       "'enter', ('seek', (16,), {}), ('read', (20,), {}), ('seek', (52,), "
                                       "{}), ('read', (20,), {}), 'exit']}}; children /=[]} "
                                       "attrs_untouched=True || locks=6 chunk_calls=[('tuple(dict{})', "
                                       "'dict{}', ['data', 'other', 'rows', 'meta']), ('tuple(dict{})', "
                                       "'dict{}', ['data', 'other', 'rows', 'meta'])] || io=[]",
 'to_dataset lazy chunks=x1y2 keyword': "{type=Dataset; data_vars=['data', 'other']; coords=['rows', "
                                        "'meta']; variables=['data', 'other', 'rows', 'meta']; "
                                        "sizes=dict{str:'rows': int:4, str:'cols': int:6}; "
                                        "attrs=dict{str:'title': str:'lazy'}; encoding=dict{}; "
                                        "indexes=['rows']; var data={type=Variable; dims=tuple(str:'rows', "
                                        "str:'cols'); shape=tuple(int:4, int:6); dtype=dtype('uint16'); "
                                        "attrs=dict{str:'units': str:'dn'}; "
                                        "encoding=dict{str:'preferred_chunksizes': dict{str:'rows': int:3, "
                                        "str:'cols': int:6}}; in_memory=False; data=['LazilyIndexedArray', "
                                        "'LazilyIndexedWrapper', 'Array']; wrapper=('tuple(int:4, int:6)', "
                                        '"dtype(\'uint16\')", \'SerializableLock\', \'Array\'); '
                                        'values=ndarray[<u2(4, 6)][[0, 3, 6, 9, 12, 15], [18, 21, 24, 27, '
                                        '30, 33], [36, 39, 42, 45, 48, 51], [54, 57, 60, 63, 66, 69]]; '
                                        "io=[('open', ('file-4x6-3-uint16',), {'mode': 'rb'}), 'enter', "
                                        "('seek', (16,), {}), ('read', (68,), {}), ('seek', (100,), {}), "
                                        "('read', (12,), {}), 'exit']}; var other={type=Variable; "
                                        "dims=tuple(str:'rows', str:'cols'); shape=tuple(int:4, int:6); "
                                        "dtype=dtype('uint16'); attrs=dict{}; "
                                        "encoding=dict{str:'preferred_chunksizes': dict{str:'rows': int:1, "
                                        "str:'cols': int:6}}; in_memory=False; data=['LazilyIndexedArray', "
                                        "'LazilyIndexedWrapper', 'Array']; wrapper=('tuple(int:4, int:6)', "
                                        '"dtype(\'uint16\')", \'SerializableLock\', \'Array\'); '
                                        'values=ndarray[<u2(4, 6)][[0, 3, 6, 9, 12, 15], [18, 21, 24, 27, '
                                        '30, 33], [36, 39, 42, 45, 48, 51], [54, 57, 60, 63, 66, 69]]; '
                                        "io=[('open', ('second',), {'mode': 'rb'}), 'enter', ('seek', (16,), "
                                        "{}), ('read', (12,), {}), ('seek', (44,), {}), ('read', (12,), {}), "
                                        "('seek', (72,), {}), ('read', (12,), {}), ('seek', (100,), {}), "
                                        "('read', (12,), {}), 'exit']}; var rows={type=IndexVariable; "
                                        "dims=tuple(str:'rows'); shape=tuple(int:4); dtype=dtype('float64'); "
                                        'attrs=dict{}; encoding=dict{}; in_memory=True; '
                                        "data=['PandasIndexingAdapter', 'Index', 'NumpyExtensionArray']; "
                                        'values=ndarray[<f8(4,)][0.0, 2.5, 5.0, 7.5]; io=[]}; var '
                                        "meta={type=Variable; dims=tuple(str:'rows'); shape=tuple(int:4); "
                                        "dtype=dtype('uint16'); attrs=dict{}; "
                                        "encoding=dict{str:'preferred_chunksizes': dict{str:'rows': int:2}}; "
                                        "in_memory=False; data=['LazilyIndexedArray', "
                                        "'LazilyIndexedWrapper', 'Array']; wrapper=('tuple(int:4)', "
                                        '"dtype(\'uint16\')", \'SerializableLock\', \'Array\'); '
                                        "values=ndarray[<u2(4, 1)][[0], [3], [6], [9]]; io=[('open', "
                                        "('file-4-2-uint16',), {'mode': 'rb'}), 'enter', ('seek', (16,), "
                                        "{}), ('read', (20,), {}), ('seek', (52,), {}), ('read', (20,), {}), "
                                        "'exit']}} attrs_untouched=True || locks=3 "
                                        "chunk_calls=[('tuple(dict{})', 'dict{}', ['data', 'other', 'rows', "
                                        "'meta'])] || io=[]",
 'to_datatree lazy chunks=x1y2 keyword': "{type=DataTree; paths=['/']; node /={type=Dataset; "
                                         "data_vars=['data', 'other']; coords=['rows', 'meta']; "
                                         "variables=['data', 'other', 'rows', 'meta']; "
                                         "sizes=dict{str:'rows': int:4, str:'cols': int:6}; "
                                         "attrs=dict{str:'title': str:'lazy'}; encoding=dict{}; "
                                         "indexes=['rows']; var data={type=Variable; dims=tuple(str:'rows', "
                                         "str:'cols'); shape=tuple(int:4, int:6); dtype=dtype('uint16'); "
                                         "attrs=dict{str:'units': str:'dn'}; "
                                         "encoding=dict{str:'preferred_chunksizes': dict{str:'rows': int:3, "
                                         "str:'cols': int:6}}; in_memory=False; data=['LazilyIndexedArray', "
                                         "'LazilyIndexedWrapper', 'Array']; wrapper=('tuple(int:4, int:6)', "
                                         '"dtype(\'uint16\')", \'SerializableLock\', \'Array\'); '
                                         'values=ndarray[<u2(4, 6)][[0, 3, 6, 9, 12, 15], [18, 21, 24, 27, '
                                         '30, 33], [36, 39, 42, 45, 48, 51], [54, 57, 60, 63, 66, 69]]; '
                                         "io=[('open', ('file-4x6-3-uint16',), {'mode': 'rb'}), 'enter', "
                                         "('seek', (16,), {}), ('read', (68,), {}), ('seek', (100,), {}), "
                                         "('read', (12,), {}), 'exit']}; var other={type=Variable; "
                                         "dims=tuple(str:'rows', str:'cols'); shape=tuple(int:4, int:6); "
                                         "dtype=dtype('uint16'); attrs=dict{}; "
                                         "encoding=dict{str:'preferred_chunksizes': dict{str:'rows': int:1, "
                                         "str:'cols': int:6}}; in_memory=False; data=['LazilyIndexedArray', "
                                         "'LazilyIndexedWrapper', 'Array']; wrapper=('tuple(int:4, int:6)', "
                                         '"dtype(\'uint16\')", \'SerializableLock\', \'Array\'); '
                                         'values=ndarray[<u2(4, 6)][[0, 3, 6, 9, 12, 15], [18, 21, 24, 27, '
                                         '30, 33], [36, 39, 42, 45, 48, 51], [54, 57, 60, 63, 66, 69]]; '
                                         "io=[('open', ('second',), {'mode': 'rb'}), 'enter', ('seek', "
                                         "(16,), {}), ('read', (12,), {}), ('seek', (44,), {}), ('read', "
                                         "(12,), {}), ('seek', (72,), {}), ('read', (12,), {}), ('seek', "
                                         "(100,), {}), ('read', (12,), {}), 'exit']}; var "
                                         "rows={type=IndexVariable; dims=tuple(str:'rows'); "
                                         "shape=tuple(int:4); dtype=dtype('float64'); attrs=dict{}; "
                                         "encoding=dict{}; in_memory=True; data=['PandasIndexingAdapter', "
                                         "'Index', 'NumpyExtensionArray']; values=ndarray[<f8(4,)][0.0, 2.5, "
                                         '5.0, 7.5]; io=[]}; var meta={type=Variable; '
                                         "dims=tuple(str:'rows'); shape=tuple(int:4); dtype=dtype('uint16'); "
                                         "attrs=dict{}; encoding=dict{str:'preferred_chunksizes': "
                                         "dict{str:'rows': int:2}}; in_memory=False; "
                                         "data=['LazilyIndexedArray', 'LazilyIndexedWrapper', 'Array']; "
                                         'wrapper=(\'tuple(int:4)\', "dtype(\'uint16\')", '
                                         "'SerializableLock', 'Array'); values=ndarray[<u2(4, 1)][[0], [3], "
                                         "[6], [9]]; io=[('open', ('file-4-2-uint16',), {'mode': 'rb'}), "
                                         "'enter', ('seek', (16,), {}), ('read', (20,), {}), ('seek', (52,), "
                                         "{}), ('read', (20,), {}), 'exit']}}; children /=[]} "
                                         "attrs_untouched=True || locks=6 chunk_calls=[('tuple(dict{})', "
                                         "'dict{}', ['data', 'other', 'rows', 'meta']), ('tuple(dict{})', "
                                         "'dict{}', ['data', 'other', 'rows', 'meta'])] || io=[]",
 'to_dataset lazy chunks=rows keyword': "{type=Dataset; data_vars=['data', 'other']; coords=['rows', "
                                        "'meta']; variables=['data', 'other', 'rows', 'meta']; "
                                        "sizes=dict{str:'rows': int:4, str:'cols': int:6}; "
                                        "attrs=dict{str:'title': str:'lazy'}; encoding=dict{}; "
                                        "indexes=['rows']; var data={type=Variable; dims=tuple(str:'rows', "
                                        "str:'cols'); shape=tuple(int:4, int:6); dtype=dtype('uint16'); "
                                        "attrs=dict{str:'units': str:'dn'}; "
                                        "encoding=dict{str:'preferred_chunksizes': dict{str:'rows': int:3, "
                                        "str:'cols': int:6}}; in_memory=False; data=['LazilyIndexedArray', "
                                        "'LazilyIndexedWrapper', 'Array']; wrapper=('tuple(int:4, int:6)', "
                                        '"dtype(\'uint16\')", \'SerializableLock\', \'Array\'); '
                                        'values=ndarray[<u2(4, 6)][[0, 3, 6, 9, 12, 15], [18, 21, 24, 27, '
                                        '30, 33], [36, 39, 42, 45, 48, 51], [54, 57, 60, 63, 66, 69]]; '
                                        "io=[('open', ('file-4x6-3-uint16',), {'mode': 'rb'}), 'enter', "
                                        "('seek', (16,), {}), ('read', (68,), {}), ('seek', (100,), {}), "
                                        "('read', (12,), {}), 'exit']}; var other={type=Variable; "
                                        "dims=tuple(str:'rows', str:'cols'); shape=tuple(int:4, int:6); "
                                        "dtype=dtype('uint16'); attrs=dict{}; "
                                        "encoding=dict{str:'preferred_chunksizes': dict{str:'rows': int:1, "
                                        "str:'cols': int:6}}; in_memory=False; data=['LazilyIndexedArray', "
                                        "'LazilyIndexedWrapper', 'Array']; wrapper=('tuple(int:4, int:6)', "
                                        '"dtype(\'uint16\')", \'SerializableLock\', \'Array\'); '
                                        'values=ndarray[<u2(4, 6)][[0, 3, 6, 9, 12, 15], [18, 21, 24, 27, '
                                        '30, 33], [36, 39, 42, 45, 48, 51], [54, 57, 60, 63, 66, 69]]; '
                                        "io=[('open', ('second',), {'mode': 'rb'}), 'enter', ('seek', (16,), "
                                        "{}), ('read', (12,), {}), ('seek', (44,), {}), ('read', (12,), {}), "
                                        "('seek', (72,), {}), ('read', (12,), {}), ('seek', (100,), {}), "
                                        "('read', (12,), {}), 'exit']}; var rows={type=IndexVariable; "
                                        "dims=tuple(str:'rows'); shape=tuple(int:4); dtype=dtype('float64'); "
                                        'attrs=dict{}; encoding=dict{}; in_memory=True; '
                                        "data=['PandasIndexingAdapter', 'Index', 'NumpyExtensionArray']; "
                                        'values=ndarray[<f8(4,)][0.0, 2.5, 5.0, 7.5]; io=[]}; var '
                                        "meta={type=Variable; dims=tuple(str:'rows'); shape=tuple(int:4); "
                                        "dtype=dtype('uint16'); attrs=dict{}; "
                                        "encoding=dict{str:'preferred_chunksizes': dict{str:'rows': int:2}}; "
                                        "in_memory=False; data=['LazilyIndexedArray', "
                                        "'LazilyIndexedWrapper', 'Array']; wrapper=('tuple(int:4)', "
                                        '"dtype(\'uint16\')", \'SerializableLock\', \'Array\'); '
                                        "values=ndarray[<u2(4, 1)][[0], [3], [6], [9]]; io=[('open', "
                                        "('file-4-2-uint16',), {'mode': 'rb'}), 'enter', ('seek', (16,), "
                                        "{}), ('read', (20,), {}), ('seek', (52,), {}), ('read', (20,), {}), "
                                        "'exit']}} attrs_untouched=True || locks=3 "
                                        'chunk_calls=[("tuple(dict{str:\'rows\': int:2})", \'dict{}\', '
                                        "['data', 'other', 'rows', 'meta'])] || io=[]",
 'to_datatree lazy chunks=rows keyword': "{type=DataTree; paths=['/']; node /={type=Dataset; "
                                         "data_vars=['data', 'other']; coords=['rows', 'meta']; "
                                         "variables=['data', 'other', 'rows', 'meta']; "
                                         "sizes=dict{str:'rows': int:4, str:'cols': int:6}; "
                                         "attrs=dict{str:'title': str:'lazy'}; encoding=dict{}; "
                                         "indexes=['rows']; var data={type=Variable; dims=tuple(str:'rows', "
                                         "str:'cols'); shape=tuple(int:4, int:6); dtype=dtype('uint16'); "
                                         "attrs=dict{str:'units': str:'dn'}; "
                                         "encoding=dict{str:'preferred_chunksizes': dict{str:'rows': int:3, "
                                         "str:'cols': int:6}}; in_memory=False; data=['LazilyIndexedArray', "
                                         "'LazilyIndexedWrapper', 'Array']; wrapper=('tuple(int:4, int:6)', "
                                         '"dtype(\'uint16\')", \'SerializableLock\', \'Array\'); '
                                         'values=ndarray[<u2(4, 6)][[0, 3, 6, 9, 12, 15], [18, 21, 24, 27, '
                                         '30, 33], [36, 39, 42, 45, 48, 51], [54, 57, 60, 63, 66, 69]]; '
                                         "io=[('open', ('file-4x6-3-uint16',), {'mode': 'rb'}), 'enter', "
                                         "('seek', (16,), {}), ('read', (68,), {}), ('seek', (100,), {}), "
                                         "('read', (12,), {}), 'exit']}; var other={type=Variable; "
                                         "dims=tuple(str:'rows', str:'cols'); shape=tuple(int:4, int:6); "
                                         "dtype=dtype('uint16'); attrs=dict{}; "
                                         "encoding=dict{str:'preferred_chunksizes': dict{str:'rows': int:1, "
                                         "str:'cols': int:6}}; in_memory=False; data=['LazilyIndexedArray', "
                                         "'LazilyIndexedWrapper', 'Array']; wrapper=('tuple(int:4, int:6)', "
                                         '"dtype(\'uint16\')", \'SerializableLock\', \'Array\'); '
                                         'values=ndarray[<u2(4, 6)][[0, 3, 6, 9, 12, 15], [18, 21, 24, 27, '
                                         '30, 33], [36, 39, 42, 45, 48, 51], [54, 57, 60, 63, 66, 69]]; '
                                         "io=[('open', ('second',), {'mode': 'rb'}), 'enter', ('seek', "
                                         "(16,), {}), ('read', (12,), {}), ('seek', (44,), {}), ('read', "
                                         "(12,), {}), ('seek', (72,), {}), ('read', (12,), {}), ('seek', "
                                         "(100,), {}), ('read', (12,), {}), 'exit']}; var "
                                         "rows={type=IndexVariable; dims=tuple(str:'rows'); "
                                         "shape=tuple(int:4); dtype=dtype('float64'); attrs=dict{}; "
                                         "encoding=dict{}; in_memory=True; data=['PandasIndexingAdapter', "
                                         "'Index', 'NumpyExtensionArray']; values=ndarray[<f8(4,)][0.0, 2.5, "
                                         '5.0, 7.5]; io=[]}; var meta={type=Variable; '
                                         "dims=tuple(str:'rows'); shape=tuple(int:4); dtype=dtype('uint16'); "
                                         "attrs=dict{}; encoding=dict{str:'preferred_chunksizes': "
                                         "dict{str:'rows': int:2}}; in_memory=False; "
                                         "data=['LazilyIndexedArray', 'LazilyIndexedWrapper', 'Array']; "
                                         'wrapper=(\'tuple(int:4)\', "dtype(\'uint16\')", '
                                         "'SerializableLock', 'Array'); values=ndarray[<u2(4, 1)][[0], [3], "
                                         "[6], [9]]; io=[('open', ('file-4-2-uint16',), {'mode': 'rb'}), "
                                         "'enter', ('seek', (16,), {}), ('read', (20,), {}), ('seek', (52,), "
                                         "{}), ('read', (20,), {}), 'exit']}}; children /=[]} "
                                         'attrs_untouched=True || locks=6 '
                                         'chunk_calls=[("tuple(dict{str:\'rows\': int:2})", \'dict{}\', '
                                         "['data', 'other', 'rows', 'meta']), "
                                         '("tuple(dict{str:\'rows\': int:2})", \'dict{}\', [\'data\', '
                                         "'other', 'rows', 'meta'])] || io=[]",
 'to_dataset lazy chunks=rows positional': "{type=Dataset; data_vars=['data', 'other']; coords=['rows', "
                                           "'meta']; variables=['data', 'other', 'rows', 'meta']; "
                                           "sizes=dict{str:'rows': int:4, str:'cols': int:6}; "
                                           "attrs=dict{str:'title': str:'lazy'}; encoding=dict{}; "
                                           "indexes=['rows']; var data={type=Variable; "
                                           "dims=tuple(str:'rows', str:'cols'); shape=tuple(int:4, int:6); "
                                           "dtype=dtype('uint16'); attrs=dict{str:'units': str:'dn'}; "
                                           "encoding=dict{str:'preferred_chunksizes': dict{str:'rows': "
                                           "int:3, str:'cols': int:6}}; in_memory=False; "
                                           "data=['LazilyIndexedArray', 'LazilyIndexedWrapper', 'Array']; "
                                           'wrapper=(\'tuple(int:4, int:6)\', "dtype(\'uint16\')", '
                                           "'SerializableLock', 'Array'); values=ndarray[<u2(4, 6)][[0, 3, "
                                           '6, 9, 12, 15], [18, 21, 24, 27, 30, 33], [36, 39, 42, 45, 48, '
                                           "51], [54, 57, 60, 63, 66, 69]]; io=[('open', "
                                           "('file-4x6-3-uint16',), {'mode': 'rb'}), 'enter', ('seek', "
                                           "(16,), {}), ('read', (68,), {}), ('seek', (100,), {}), ('read', "
                                           "(12,), {}), 'exit']}; var other={type=Variable; "
                                           "dims=tuple(str:'rows', str:'cols'); shape=tuple(int:4, int:6); "
                                           "dtype=dtype('uint16'); attrs=dict{}; "
                                           "encoding=dict{str:'preferred_chunksizes': dict{str:'rows': "
                                           "int:1, str:'cols': int:6}}; in_memory=False; "
                                           "data=['LazilyIndexedArray', 'LazilyIndexedWrapper', 'Array']; "
                                           'wrapper=(\'tuple(int:4, int:6)\', "dtype(\'uint16\')", '
                                           "'SerializableLock', 'Array'); values=ndarray[<u2(4, 6)][[0, 3, "
                                           '6, 9, 12, 15], [18, 21, 24, 27, 30, 33], [36, 39, 42, 45, 48, '
                                           "51], [54, 57, 60, 63, 66, 69]]; io=[('open', ('second',), "
                                           "{'mode': 'rb'}), 'enter', ('seek', (16,), {}), ('read', (12,), "
                                           "{}), ('seek', (44,), {}), ('read', (12,), {}), ('seek', (72,), "
                                           "{}), ('read', (12,), {}), ('seek', (100,), {}), ('read', (12,), "
                                           "{}), 'exit']}; var rows={type=IndexVariable; "
                                           "dims=tuple(str:'rows'); shape=tuple(int:4); "
                                           "dtype=dtype('float64'); attrs=dict{}; encoding=dict{}; "
                                           "in_memory=True; data=['PandasIndexingAdapter', 'Index', "
                                           "'NumpyExtensionArray']; values=ndarray[<f8(4,)][0.0, 2.5, 5.0, "
                                           "7.5]; io=[]}; var meta={type=Variable; dims=tuple(str:'rows'); "
                                           "shape=tuple(int:4); dtype=dtype('uint16'); attrs=dict{}; "
                                           "encoding=dict{str:'preferred_chunksizes': dict{str:'rows': "
                                           "int:2}}; in_memory=False; data=['LazilyIndexedArray', "
                                           "'LazilyIndexedWrapper', 'Array']; wrapper=('tuple(int:4)', "
                                           '"dtype(\'uint16\')", \'SerializableLock\', \'Array\'); '
                                           "values=ndarray[<u2(4, 1)][[0], [3], [6], [9]]; io=[('open', "
                                           "('file-4-2-uint16',), {'mode': 'rb'}), 'enter', ('seek', (16,), "
                                           "{}), ('read', (20,), {}), ('seek', (52,), {}), ('read', (20,), "
                                           "{}), 'exit']}} attrs_untouched=True || locks=3 "
                                           'chunk_calls=[("tuple(dict{str:\'rows\': int:2})", \'dict{}\', '
                                           "['data', 'other', 'rows', 'meta'])] || io=[]",
 'to_datatree lazy chunks=rows positional': "{type=DataTree; paths=['/']; node /={type=Dataset; "
                                            "data_vars=['data', 'other']; coords=['rows', 'meta']; "
                                            "variables=['data', 'other', 'rows', 'meta']; "
                                            "sizes=dict{str:'rows': int:4, str:'cols': int:6}; "
                                            "attrs=dict{str:'title': str:'lazy'}; encoding=dict{}; "
                                            "indexes=['rows']; var data={type=Variable; "
                                            "dims=tuple(str:'rows', str:'cols'); shape=tuple(int:4, int:6); "
                                            "dtype=dtype('uint16'); attrs=dict{str:'units': str:'dn'}; "
                                            "encoding=dict{str:'preferred_chunksizes': dict{str:'rows': "
                                            "int:3, str:'cols': int:6}}; in_memory=False; "
                                            "data=['LazilyIndexedArray', 'LazilyIndexedWrapper', 'Array']; "
                                            'wrapper=(\'tuple(int:4, int:6)\', "dtype(\'uint16\')", '
                                            "'SerializableLock', 'Array'); values=ndarray[<u2(4, 6)][[0, 3, "
                                            '6, 9, 12, 15], [18, 21, 24, 27, 30, 33], [36, 39, 42, 45, 48, '
                                            "51], [54, 57, 60, 63, 66, 69]]; io=[('open', "
                                            "('file-4x6-3-uint16',), {'mode': 'rb'}), 'enter', ('seek', "
                                            "(16,), {}), ('read', (68,), {}), ('seek', (100,), {}), ('read', "
                                            "(12,), {}), 'exit']}; var other={type=Variable; "
                                            "dims=tuple(str:'rows', str:'cols'); shape=tuple(int:4, int:6); "
                                            "dtype=dtype('uint16'); attrs=dict{}; "
                                            "encoding=dict{str:'preferred_chunksizes': dict{str:'rows': "
                                            "int:1, str:'cols': int:6}}; in_memory=False; "
                                            "data=['LazilyIndexedArray', 'LazilyIndexedWrapper', 'Array']; "
                                            'wrapper=(\'tuple(int:4, int:6)\', "dtype(\'uint16\')", '
                                            "'SerializableLock', 'Array'); values=ndarray[<u2(4, 6)][[0, 3, "
                                            '6, 9, 12, 15], [18, 21, 24, 27, 30, 33], [36, 39, 42, 45, 48, '
                                            "51], [54, 57, 60, 63, 66, 69]]; io=[('open', ('second',), "
                                            "{'mode': 'rb'}), 'enter', ('seek', (16,), {}), ('read', (12,), "
                                            "{}), ('seek', (44,), {}), ('read', (12,), {}), ('seek', (72,), "
                                            "{}), ('read', (12,), {}), ('seek', (100,), {}), ('read', (12,), "
                                            "{}), 'exit']}; var rows={type=IndexVariable; "
                                            "dims=tuple(str:'rows'); shape=tuple(int:4); "
                                            "dtype=dtype('float64'); attrs=dict{}; encoding=dict{}; "
                                            "in_memory=True; data=['PandasIndexingAdapter', 'Index', "
                                            "'NumpyExtensionArray']; values=ndarray[<f8(4,)][0.0, 2.5, 5.0, "
                                            "7.5]; io=[]}; var meta={type=Variable; dims=tuple(str:'rows'); "
                                            "shape=tuple(int:4); dtype=dtype('uint16'); attrs=dict{}; "
                                            "encoding=dict{str:'preferred_chunksizes': dict{str:'rows': "
                                            "int:2}}; in_memory=False; data=['LazilyIndexedArray', "
                                            "'LazilyIndexedWrapper', 'Array']; wrapper=('tuple(int:4)', "
                                            '"dtype(\'uint16\')", \'SerializableLock\', \'Array\'); '
                                            "values=ndarray[<u2(4, 1)][[0], [3], [6], [9]]; io=[('open', "
                                            "('file-4-2-uint16',), {'mode': 'rb'}), 'enter', ('seek', (16,), "
                                            "{}), ('read', (20,), {}), ('seek', (52,), {}), ('read', (20,), "
                                            "{}), 'exit']}}; children /=[]} attrs_untouched=True || locks=6 "
                                            'chunk_calls=[("tuple(dict{str:\'rows\': int:2})", \'dict{}\', '
                                            "['data', 'other', 'rows', 'meta']), "
                                            '("tuple(dict{str:\'rows\': int:2})", \'dict{}\', [\'data\', '
                                            "'other', 'rows', 'meta'])] || io=[]",
 'to_dataset lazy chunks=rows-cols-nope keyword': "{type=Dataset; data_vars=['data', 'other']; "
                                                  "coords=['rows', 'meta']; variables=['data', 'other', "
                                                  "'rows', 'meta']; sizes=dict{str:'rows': int:4, "
                                                  "str:'cols': int:6}; attrs=dict{str:'title': str:'lazy'}; "
                                                  "encoding=dict{}; indexes=['rows']; var "
                                                  "data={type=Variable; dims=tuple(str:'rows', str:'cols'); "
                                                  "shape=tuple(int:4, int:6); dtype=dtype('uint16'); "
                                                  "attrs=dict{str:'units': str:'dn'}; "
                                                  "encoding=dict{str:'preferred_chunksizes': "
                                                  "dict{str:'rows': int:3, str:'cols': int:6}}; "
                                                  "in_memory=False; data=['LazilyIndexedArray', "
                                                  "'LazilyIndexedWrapper', 'Array']; wrapper=('tuple(int:4, "
                                                  'int:6)\', "dtype(\'uint16\')", \'SerializableLock\', '
                                                  "'Array'); values=ndarray[<u2(4, 6)][[0, 3, 6, 9, 12, 15], "
                                                  '[18, 21, 24, 27, 30, 33], [36, 39, 42, 45, 48, 51], [54, '
                                                  "57, 60, 63, 66, 69]]; io=[('open', "
                                                  "('file-4x6-3-uint16',), {'mode': 'rb'}), 'enter', "
                                                  "('seek', (16,), {}), ('read', (68,), {}), ('seek', "
                                                  "(100,), {}), ('read', (12,), {}), 'exit']}; var "
                                                  "other={type=Variable; dims=tuple(str:'rows', str:'cols'); "
                                                  "shape=tuple(int:4, int:6); dtype=dtype('uint16'); "
                                                  "attrs=dict{}; encoding=dict{str:'preferred_chunksizes': "
                                                  "dict{str:'rows': int:1, str:'cols': int:6}}; "
                                                  "in_memory=False; data=['LazilyIndexedArray', "
                                                  "'LazilyIndexedWrapper', 'Array']; wrapper=('tuple(int:4, "
                                                  'int:6)\', "dtype(\'uint16\')", \'SerializableLock\', '
                                                  "'Array'); values=ndarray[<u2(4, 6)][[0, 3, 6, 9, 12, 15], "
                                                  '[18, 21, 24, 27, 30, 33], [36, 39, 42, 45, 48, 51], [54, '
                                                  "57, 60, 63, 66, 69]]; io=[('open', ('second',), {'mode': "
                                                  "'rb'}), 'enter', ('seek', (16,), {}), ('read', (12,), "
                                                  "{}), ('seek', (44,), {}), ('read', (12,), {}), ('seek', "
                                                  "(72,), {}), ('read', (12,), {}), ('seek', (100,), {}), "
                                                  "('read', (12,), {}), 'exit']}; var "
                                                  "rows={type=IndexVariable; dims=tuple(str:'rows'); "
                                                  "shape=tuple(int:4); dtype=dtype('float64'); attrs=dict{}; "
                                                  'encoding=dict{}; in_memory=True; '
                                                  "data=['PandasIndexingAdapter', 'Index', "
                                                  "'NumpyExtensionArray']; values=ndarray[<f8(4,)][0.0, 2.5, "
                                                  '5.0, 7.5]; io=[]}; var meta={type=Variable; '
                                                  "dims=tuple(str:'rows'); shape=tuple(int:4); "
                                                  "dtype=dtype('uint16'); attrs=dict{}; "
                                                  "encoding=dict{str:'preferred_chunksizes': "
                                                  "dict{str:'rows': int:2}}; in_memory=False; "
                                                  "data=['LazilyIndexedArray', 'LazilyIndexedWrapper', "
                                                  "'Array']; wrapper=('tuple(int:4)', "
                                                  '"dtype(\'uint16\')", \'SerializableLock\', \'Array\'); '
                                                  'values=ndarray[<u2(4, 1)][[0], [3], [6], [9]]; '
                                                  "io=[('open', ('file-4-2-uint16',), {'mode': 'rb'}), "
                                                  "'enter', ('seek', (16,), {}), ('read', (20,), {}), "
                                                  "('seek', (52,), {}), ('read', (20,), {}), 'exit']}} "
                                                  'attrs_untouched=True || locks=3 '
                                                  'chunk_calls=[("tuple(dict{str:\'cols\': int:-1, '
                                                  'str:\'rows\': str:\'auto\'})", \'dict{}\', [\'data\', '
                                                  "'other', 'rows', 'meta'])] || io=[]",
 'to_datatree lazy chunks=rows-cols-nope keyword': "{type=DataTree; paths=['/']; node /={type=Dataset; "
                                                   "data_vars=['data', 'other']; coords=['rows', 'meta']; "
                                                   "variables=['data', 'other', 'rows', 'meta']; "
                                                   "sizes=dict{str:'rows': int:4, str:'cols': int:6}; "
                                                   "attrs=dict{str:'title': str:'lazy'}; encoding=dict{}; "
                                                   "indexes=['rows']; var data={type=Variable; "
                                                   "dims=tuple(str:'rows', str:'cols'); shape=tuple(int:4, "
                                                   "int:6); dtype=dtype('uint16'); attrs=dict{str:'units': "
                                                   "str:'dn'}; encoding=dict{str:'preferred_chunksizes': "
                                                   "dict{str:'rows': int:3, str:'cols': int:6}}; "
                                                   "in_memory=False; data=['LazilyIndexedArray', "
                                                   "'LazilyIndexedWrapper', 'Array']; wrapper=('tuple(int:4, "
                                                   'int:6)\', "dtype(\'uint16\')", \'SerializableLock\', '
                                                   "'Array'); values=ndarray[<u2(4, 6)][[0, 3, 6, 9, 12, "
                                                   '15], [18, 21, 24, 27, 30, 33], [36, 39, 42, 45, 48, 51], '
                                                   "[54, 57, 60, 63, 66, 69]]; io=[('open', "
                                                   "('file-4x6-3-uint16',), {'mode': 'rb'}), 'enter', "
                                                   "('seek', (16,), {}), ('read', (68,), {}), ('seek', "
                                                   "(100,), {}), ('read', (12,), {}), 'exit']}; var "
                                                   "other={type=Variable; dims=tuple(str:'rows', "
                                                   "str:'cols'); shape=tuple(int:4, int:6); "
                                                   "dtype=dtype('uint16'); attrs=dict{}; "
                                                   "encoding=dict{str:'preferred_chunksizes': "
                                                   "dict{str:'rows': int:1, str:'cols': int:6}}; "
                                                   "in_memory=False; data=['LazilyIndexedArray', "
                                                   "'LazilyIndexedWrapper', 'Array']; wrapper=('tuple(int:4, "
                                                   'int:6)\', "dtype(\'uint16\')", \'SerializableLock\', '
                                                   "'Array'); values=ndarray[<u2(4, 6)][[0, 3, 6, 9, 12, "
                                                   '15], [18, 21, 24, 27, 30, 33], [36, 39, 42, 45, 48, 51], '
                                                   "[54, 57, 60, 63, 66, 69]]; io=[('open', ('second',), "
                                                   "{'mode': 'rb'}), 'enter', ('seek', (16,), {}), ('read', "
                                                   "(12,), {}), ('seek', (44,), {}), ('read', (12,), {}), "
                                                   "('seek', (72,), {}), ('read', (12,), {}), ('seek', "
                                                   "(100,), {}), ('read', (12,), {}), 'exit']}; var "
                                                   "rows={type=IndexVariable; dims=tuple(str:'rows'); "
                                                   "shape=tuple(int:4); dtype=dtype('float64'); "
                                                   'attrs=dict{}; encoding=dict{}; in_memory=True; '
                                                   "data=['PandasIndexingAdapter', 'Index', "
                                                   "'NumpyExtensionArray']; values=ndarray[<f8(4,)][0.0, "
                                                   '2.5, 5.0, 7.5]; io=[]}; var meta={type=Variable; '
                                                   "dims=tuple(str:'rows'); shape=tuple(int:4); "
                                                   "dtype=dtype('uint16'); attrs=dict{}; "
                                                   "encoding=dict{str:'preferred_chunksizes': "
                                                   "dict{str:'rows': int:2}}; in_memory=False; "
                                                   "data=['LazilyIndexedArray', 'LazilyIndexedWrapper', "
                                                   "'Array']; wrapper=('tuple(int:4)', "
                                                   '"dtype(\'uint16\')", \'SerializableLock\', \'Array\'); '
                                                   'values=ndarray[<u2(4, 1)][[0], [3], [6], [9]]; '
                                                   "io=[('open', ('file-4-2-uint16',), {'mode': 'rb'}), "
                                                   "'enter', ('seek', (16,), {}), ('read', (20,), {}), "
                                                   "('seek', (52,), {}), ('read', (20,), {}), 'exit']}}; "
                                                   'children /=[]} attrs_untouched=True || locks=6 '
                                                   'chunk_calls=[("tuple(dict{str:\'cols\': int:-1, '
                                                   'str:\'rows\': str:\'auto\'})", \'dict{}\', [\'data\', '
                                                   "'other', 'rows', 'meta']), "
                                                   '("tuple(dict{str:\'cols\': int:-1, str:\'rows\': '
                                                   'str:\'auto\'})", \'dict{}\', [\'data\', \'other\', '
                                                   "'rows', 'meta'])] || io=[]",
 'to_dataset lazy chunks=nope keyword': "{type=Dataset; data_vars=['data', 'other']; coords=['rows', "
                                        "'meta']; variables=['data', 'other', 'rows', 'meta']; "
                                        "sizes=dict{str:'rows': int:4, str:'cols': int:6}; "
                                        "attrs=dict{str:'title': str:'lazy'}; encoding=dict{}; "
                                        "indexes=['rows']; var data={type=Variable; dims=tuple(str:'rows', "
                                        "str:'cols'); shape=tuple(int:4, int:6); dtype=dtype('uint16'); "
                                        "attrs=dict{str:'units': str:'dn'}; "
                                        "encoding=dict{str:'preferred_chunksizes': dict{str:'rows': int:3, "
                                        "str:'cols': int:6}}; in_memory=False; data=['LazilyIndexedArray', "
                                        "'LazilyIndexedWrapper', 'Array']; wrapper=('tuple(int:4, int:6)', "
                                        '"dtype(\'uint16\')", \'SerializableLock\', \'Array\'); '
                                        'values=ndarray[<u2(4, 6)][[0, 3, 6, 9, 12, 15], [18, 21, 24, 27, '
                                        '30, 33], [36, 39, 42, 45, 48, 51], [54, 57, 60, 63, 66, 69]]; '
                                        "io=[('open', ('file-4x6-3-uint16',), {'mode': 'rb'}), 'enter', "
                                        "('seek', (16,), {}), ('read', (68,), {}), ('seek', (100,), {}), "
                                        "('read', (12,), {}), 'exit']}; var other={type=Variable; "
                                        "dims=tuple(str:'rows', str:'cols'); shape=tuple(int:4, int:6); "
                                        "dtype=dtype('uint16'); attrs=dict{}; "
                                        "encoding=dict{str:'preferred_chunksizes': dict{str:'rows': int:1, "
                                        "str:'cols': int:6}}; in_memory=False; data=['LazilyIndexedArray', "
                                        "'LazilyIndexedWrapper', 'Array']; wrapper=('tuple(int:4, int:6)', "
                                        '"dtype(\'uint16\')", \'SerializableLock\', \'Array\'); '
                                        'values=ndarray[<u2(4, 6)][[0, 3, 6, 9, 12, 15], [18, 21, 24, 27, '
                                        '30, 33], [36, 39, 42, 45, 48, 51], [54, 57, 60, 63, 66, 69]]; '
                                        "io=[('open', ('second',), {'mode': 'rb'}), 'enter', ('seek', (16,), "
                                        "{}), ('read', (12,), {}), ('seek', (44,), {}), ('read', (12,), {}), "
                                        "('seek', (72,), {}), ('read', (12,), {}), ('seek', (100,), {}), "
                                        "('read', (12,), {}), 'exit']}; var rows={type=IndexVariable; "
                                        "dims=tuple(str:'rows'); shape=tuple(int:4); dtype=dtype('float64'); "
                                        'attrs=dict{}; encoding=dict{}; in_memory=True; '
                                        "data=['PandasIndexingAdapter', 'Index', 'NumpyExtensionArray']; "
                                        'values=ndarray[<f8(4,)][0.0, 2.5, 5.0, 7.5]; io=[]}; var '
                                        "meta={type=Variable; dims=tuple(str:'rows'); shape=tuple(int:4); "
                                        "dtype=dtype('uint16'); attrs=dict{}; "
                                        "encoding=dict{str:'preferred_chunksizes': dict{str:'rows': int:2}}; "
                                        "in_memory=False; data=['LazilyIndexedArray', "
                                        "'LazilyIndexedWrapper', 'Array']; wrapper=('tuple(int:4)', "
                                        '"dtype(\'uint16\')", \'SerializableLock\', \'Array\'); '
                                        "values=ndarray[<u2(4, 1)][[0], [3], [6], [9]]; io=[('open', "
                                        "('file-4-2-uint16',), {'mode': 'rb'}), 'enter', ('seek', (16,), "
                                        "{}), ('read', (20,), {}), ('seek', (52,), {}), ('read', (20,), {}), "
                                        "'exit']}} attrs_untouched=True || locks=3 "
                                        "chunk_calls=[('tuple(dict{})', 'dict{}', ['data', 'other', 'rows', "
                                        "'meta'])] || io=[]",
 'to_datatree lazy chunks=nope keyword': "{type=DataTree; paths=['/']; node /={type=Dataset; "
                                         "data_vars=['data', 'other']; coords=['rows', 'meta']; "
                                         "variables=['data', 'other', 'rows', 'meta']; "
                                         "sizes=dict{str:'rows': int:4, str:'cols': int:6}; "
                                         "attrs=dict{str:'title': str:'lazy'}; encoding=dict{}; "
                                         "indexes=['rows']; var data={type=Variable; dims=tuple(str:'rows', "
                                         "str:'cols'); shape=tuple(int:4, int:6); dtype=dtype('uint16'); "
                                         "attrs=dict{str:'units': str:'dn'}; "
                                         "encoding=dict{str:'preferred_chunksizes': dict{str:'rows': int:3, "
                                         "str:'cols': int:6}}; in_memory=False; data=['LazilyIndexedArray', "
                                         "'LazilyIndexedWrapper', 'Array']; wrapper=('tuple(int:4, int:6)', "
                                         '"dtype(\'uint16\')", \'SerializableLock\', \'Array\'); '
                                         'values=ndarray[<u2(4, 6)][[0, 3, 6, 9, 12, 15], [18, 21, 24, 27, '
                                         '30, 33], [36, 39, 42, 45, 48, 51], [54, 57, 60, 63, 66, 69]]; '
                                         "io=[('open', ('file-4x6-3-uint16',), {'mode': 'rb'}), 'enter', "
                                         "('seek', (16,), {}), ('read', (68,), {}), ('seek', (100,), {}), "
                                         "('read', (12,), {}), 'exit']}; var other={type=Variable; "
                                         "dims=tuple(str:'rows', str:'cols'); shape=tuple(int:4, int:6); "
                                         "dtype=dtype('uint16'); attrs=dict{}; "
                                         "encoding=dict{str:'preferred_chunksizes': dict{str:'rows': int:1, "
                                         "str:'cols': int:6}}; in_memory=False; data=['LazilyIndexedArray', "
                                         "'LazilyIndexedWrapper', 'Array']; wrapper=('tuple(int:4, int:6)', "
                                         '"dtype(\'uint16\')", \'SerializableLock\', \'Array\'); '
                                         'values=ndarray[<u2(4, 6)][[0, 3, 6, 9, 12, 15], [18, 21, 24, 27, '
                                         '30, 33], [36, 39, 42, 45, 48, 51], [54, 57, 60, 63, 66, 69]]; '
                                         "io=[('open', ('second',), {'mode': 'rb'}), 'enter', ('seek', "
                                         "(16,), {}), ('read', (12,), {}), ('seek', (44,), {}), ('read', "
                                         "(12,), {}), ('seek', (72,), {}), ('read', (12,), {}), ('seek', "
                                         "(100,), {}), ('read', (12,), {}), 'exit']}; var "
                                         "rows={type=IndexVariable; dims=tuple(str:'rows'); "
                                         "shape=tuple(int:4); dtype=dtype('float64'); attrs=dict{}; "
                                         "encoding=dict{}; in_memory=True; data=['PandasIndexingAdapter', "
                                         "'Index', 'NumpyExtensionArray']; values=ndarray[<f8(4,)][0.0, 2.5, "
                                         '5.0, 7.5]; io=[]}; var meta={type=Variable; '
                                         "dims=tuple(str:'rows'); shape=tuple(int:4); dtype=dtype('uint16'); "
                                         "attrs=dict{}; encoding=dict{str:'preferred_chunksizes': "
                                         "dict{str:'rows': int:2}}; in_memory=False; "
                                         "data=['LazilyIndexedArray', 'LazilyIndexedWrapper', 'Array']; "
                                         'wrapper=(\'tuple(int:4)\', "dtype(\'uint16\')", '
                                         "'SerializableLock', 'Array'); values=ndarray[<u2(4, 1)][[0], [3], "
                                         "[6], [9]]; io=[('open', ('file-4-2-uint16',), {'mode': 'rb'}), "
                                         "'enter', ('seek', (16,), {}), ('read', (20,), {}), ('seek', (52,), "
                                         "{}), ('read', (20,), {}), 'exit']}}; children /=[]} "
                                         "attrs_untouched=True || locks=6 chunk_calls=[('tuple(dict{})', "
                                         "'dict{}', ['data', 'other', 'rows', 'meta']), ('tuple(dict{})', "
                                         "'dict{}', ['data', 'other', 'rows', 'meta'])] || io=[]",
 'to_dataset lazy chunks=readonly keyword': "{type=Dataset; data_vars=['data', 'other']; coords=['rows', "
                                            "'meta']; variables=['data', 'other', 'rows', 'meta']; "
                                            "sizes=dict{str:'rows': int:4, str:'cols': int:6}; "
                                            "attrs=dict{str:'title': str:'lazy'}; encoding=dict{}; "
                                            "indexes=['rows']; var data={type=Variable; "
                                            "dims=tuple(str:'rows', str:'cols'); shape=tuple(int:4, int:6); "
                                            "dtype=dtype('uint16'); attrs=dict{str:'units': str:'dn'}; "
                                            "encoding=dict{str:'preferred_chunksizes': dict{str:'rows': "
                                            "int:3, str:'cols': int:6}}; in_memory=False; "
                                            "data=['LazilyIndexedArray', 'LazilyIndexedWrapper', 'Array']; "
                                            'wrapper=(\'tuple(int:4, int:6)\', "dtype(\'uint16\')", '
                                            "'SerializableLock', 'Array'); values=ndarray[<u2(4, 6)][[0, 3, "
                                            '6, 9, 12, 15], [18, 21, 24, 27, 30, 33], [36, 39, 42, 45, 48, '
                                            "51], [54, 57, 60, 63, 66, 69]]; io=[('open', "
                                            "('file-4x6-3-uint16',), {'mode': 'rb'}), 'enter', ('seek', "
                                            "(16,), {}), ('read', (68,), {}), ('seek', (100,), {}), ('read', "
                                            "(12,), {}), 'exit']}; var other={type=Variable; "
                                            "dims=tuple(str:'rows', str:'cols'); shape=tuple(int:4, int:6); "
                                            "dtype=dtype('uint16'); attrs=dict{}; "
                                            "encoding=dict{str:'preferred_chunksizes': dict{str:'rows': "
                                            "int:1, str:'cols': int:6}}; in_memory=False; "
                                            "data=['LazilyIndexedArray', 'LazilyIndexedWrapper', 'Array']; "
                                            'wrapper=(\'tuple(int:4, int:6)\', "dtype(\'uint16\')", '
                                            "'SerializableLock', 'Array'); values=ndarray[<u2(4, 6)][[0, 3, "
                                            '6, 9, 12, 15], [18, 21, 24, 27, 30, 33], [36, 39, 42, 45, 48, '
                                            "51], [54, 57, 60, 63, 66, 69]]; io=[('open', ('second',), "
                                            "{'mode': 'rb'}), 'enter', ('seek', (16,), {}), ('read', (12,), "
                                            "{}), ('seek', (44,), {}), ('read', (12,), {}), ('seek', (72,), "
                                            "{}), ('read', (12,), {}), ('seek', (100,), {}), ('read', (12,), "
                                            "{}), 'exit']}; var rows={type=IndexVariable; "
                                            "dims=tuple(str:'rows'); shape=tuple(int:4); "
                                            "dtype=dtype('float64'); attrs=dict{}; encoding=dict{}; "
                                            "in_memory=True; data=['PandasIndexingAdapter', 'Index', "
                                            "'NumpyExtensionArray']; values=ndarray[<f8(4,)][0.0, 2.5, 5.0, "
                                            "7.5]; io=[]}; var meta={type=Variable; dims=tuple(str:'rows'); "
                                            "shape=tuple(int:4); dtype=dtype('uint16'); attrs=dict{}; "
                                            "encoding=dict{str:'preferred_chunksizes': dict{str:'rows': "
                                            "int:2}}; in_memory=False; data=['LazilyIndexedArray', "
                                            "'LazilyIndexedWrapper', 'Array']; wrapper=('tuple(int:4)', "
                                            '"dtype(\'uint16\')", \'SerializableLock\', \'Array\'); '
                                            "values=ndarray[<u2(4, 1)][[0], [3], [6], [9]]; io=[('open', "
                                            "('file-4-2-uint16',), {'mode': 'rb'}), 'enter', ('seek', (16,), "
                                            "{}), ('read', (20,), {}), ('seek', (52,), {}), ('read', (20,), "
                                            "{}), 'exit']}} attrs_untouched=True || locks=3 "
                                            'chunk_calls=[("tuple(dict{str:\'rows\': int:1})", \'dict{}\', '
                                            "['data', 'other', 'rows', 'meta'])] || io=[]",
 'to_datatree lazy chunks=readonly keyword': "{type=DataTree; paths=['/']; node /={type=Dataset; "
                                             "data_vars=['data', 'other']; coords=['rows', 'meta']; "
                                             "variables=['data', 'other', 'rows', 'meta']; "
                                             "sizes=dict{str:'rows': int:4, str:'cols': int:6}; "
                                             "attrs=dict{str:'title': str:'lazy'}; encoding=dict{}; "
                                             "indexes=['rows']; var data={type=Variable; "
                                             "dims=tuple(str:'rows', str:'cols'); shape=tuple(int:4, int:6); "
                                             "dtype=dtype('uint16'); attrs=dict{str:'units': str:'dn'}; "
                                             "encoding=dict{str:'preferred_chunksizes': dict{str:'rows': "
                                             "int:3, str:'cols': int:6}}; in_memory=False; "
                                             "data=['LazilyIndexedArray', 'LazilyIndexedWrapper', 'Array']; "
                                             'wrapper=(\'tuple(int:4, int:6)\', "dtype(\'uint16\')", '
                                             "'SerializableLock', 'Array'); values=ndarray[<u2(4, 6)][[0, 3, "
                                             '6, 9, 12, 15], [18, 21, 24, 27, 30, 33], [36, 39, 42, 45, 48, '
                                             "51], [54, 57, 60, 63, 66, 69]]; io=[('open', "
                                             "('file-4x6-3-uint16',), {'mode': 'rb'}), 'enter', ('seek', "
                                             "(16,), {}), ('read', (68,), {}), ('seek', (100,), {}), "
                                             "('read', (12,), {}), 'exit']}; var other={type=Variable; "
                                             "dims=tuple(str:'rows', str:'cols'); shape=tuple(int:4, int:6); "
                                             "dtype=dtype('uint16'); attrs=dict{}; "
                                             "encoding=dict{str:'preferred_chunksizes': dict{str:'rows': "
                                             "int:1, str:'cols': int:6}}; in_memory=False; "
                                             "data=['LazilyIndexedArray', 'LazilyIndexedWrapper', 'Array']; "
                                             'wrapper=(\'tuple(int:4, int:6)\', "dtype(\'uint16\')", '
                                             "'SerializableLock', 'Array'); values=ndarray[<u2(4, 6)][[0, 3, "
                                             '6, 9, 12, 15], [18, 21, 24, 27, 30, 33], [36, 39, 42, 45, 48, '
                                             "51], [54, 57, 60, 63, 66, 69]]; io=[('open', ('second',), "
                                             "{'mode': 'rb'}), 'enter', ('seek', (16,), {}), ('read', (12,), "
                                             "{}), ('seek', (44,), {}), ('read', (12,), {}), ('seek', (72,), "
                                             "{}), ('read', (12,), {}), ('seek', (100,), {}), ('read', "
                                             "(12,), {}), 'exit']}; var rows={type=IndexVariable; "
                                             "dims=tuple(str:'rows'); shape=tuple(int:4); "
                                             "dtype=dtype('float64'); attrs=dict{}; encoding=dict{}; "
                                             "in_memory=True; data=['PandasIndexingAdapter', 'Index', "
                                             "'NumpyExtensionArray']; values=ndarray[<f8(4,)][0.0, 2.5, 5.0, "
                                             "7.5]; io=[]}; var meta={type=Variable; dims=tuple(str:'rows'); "
                                             "shape=tuple(int:4); dtype=dtype('uint16'); attrs=dict{}; "
                                             "encoding=dict{str:'preferred_chunksizes': dict{str:'rows': "
                                             "int:2}}; in_memory=False; data=['LazilyIndexedArray', "
                                             "'LazilyIndexedWrapper', 'Array']; wrapper=('tuple(int:4)', "
                                             '"dtype(\'uint16\')", \'SerializableLock\', \'Array\'); '
                                             "values=ndarray[<u2(4, 1)][[0], [3], [6], [9]]; io=[('open', "
                                             "('file-4-2-uint16',), {'mode': 'rb'}), 'enter', ('seek', "
                                             "(16,), {}), ('read', (20,), {}), ('seek', (52,), {}), ('read', "
                                             "(20,), {}), 'exit']}}; children /=[]} attrs_untouched=True || "
                                             'locks=6 chunk_calls=[("tuple(dict{str:\'rows\': int:1})", '
                                             "'dict{}', ['data', 'other', 'rows', 'meta']), "
                                             '("tuple(dict{str:\'rows\': int:1})", \'dict{}\', [\'data\', '
                                             "'other', 'rows', 'meta'])] || io=[]",
 'to_dataset lazy chunks=-1 keyword': "raise builtins.AttributeError: 'int' object has no attribute 'items' "
                                      '|| locks=3 chunk_calls=[] || io=[]',
 'to_datatree lazy chunks=-1 keyword': "raise builtins.AttributeError: 'int' object has no attribute 'items' "
                                       '|| locks=3 chunk_calls=[] || io=[]',
 'to_dataset lazy chunks=-1 positional': "raise builtins.AttributeError: 'int' object has no attribute "
                                         "'items' || locks=3 chunk_calls=[] || io=[]",
 'to_datatree lazy chunks=-1 positional': "raise builtins.AttributeError: 'int' object has no attribute "
                                          "'items' || locks=3 chunk_calls=[] || io=[]",
 "to_dataset lazy chunks='auto' keyword": "raise builtins.AttributeError: 'str' object has no attribute "
                                          "'items' || locks=3 chunk_calls=[] || io=[]",
 "to_datatree lazy chunks='auto' keyword": "raise builtins.AttributeError: 'str' object has no attribute "
                                           "'items' || locks=3 chunk_calls=[] || io=[]",
 'to_dataset lazy chunks=0 keyword': "raise builtins.AttributeError: 'int' object has no attribute 'items' "
                                     '|| locks=3 chunk_calls=[] || io=[]',
 'to_datatree lazy chunks=0 keyword': "raise builtins.AttributeError: 'int' object has no attribute 'items' "
                                      '|| locks=3 chunk_calls=[] || io=[]',
 'to_dataset lazy chunks=list keyword': "raise builtins.AttributeError: 'list' object has no attribute "
                                        "'items' || locks=3 chunk_calls=[] || io=[]",
 'to_datatree lazy chunks=list keyword': "raise builtins.AttributeError: 'list' object has no attribute "
                                         "'items' || locks=3 chunk_calls=[] || io=[]",
 'to_dataset lazy default': "{type=Dataset; data_vars=['data', 'other']; coords=['rows', 'meta']; "
                            "variables=['data', 'other', 'rows', 'meta']; sizes=dict{str:'rows': int:4, "
                            "str:'cols': int:6}; attrs=dict{str:'title': str:'lazy'}; encoding=dict{}; "
                            "indexes=['rows']; var data={type=Variable; dims=tuple(str:'rows', str:'cols'); "
                            "shape=tuple(int:4, int:6); dtype=dtype('uint16'); attrs=dict{str:'units': "
                            "str:'dn'}; encoding=dict{str:'preferred_chunksizes': dict{str:'rows': int:3, "
                            "str:'cols': int:6}}; in_memory=False; data=['LazilyIndexedArray', "
                            "'LazilyIndexedWrapper', 'Array']; wrapper=('tuple(int:4, int:6)', "
                            '"dtype(\'uint16\')", \'SerializableLock\', \'Array\'); values=ndarray[<u2(4, '
                            '6)][[0, 3, 6, 9, 12, 15], [18, 21, 24, 27, 30, 33], [36, 39, 42, 45, 48, 51], '
                            "[54, 57, 60, 63, 66, 69]]; io=[('open', ('file-4x6-3-uint16',), {'mode': "
                            "'rb'}), 'enter', ('seek', (16,), {}), ('read', (68,), {}), ('seek', (100,), "
                            "{}), ('read', (12,), {}), 'exit']}; var other={type=Variable; "
                            "dims=tuple(str:'rows', str:'cols'); shape=tuple(int:4, int:6); "
                            "dtype=dtype('uint16'); attrs=dict{}; encoding=dict{str:'preferred_chunksizes': "
                            "dict{str:'rows': int:1, str:'cols': int:6}}; in_memory=False; "
                            "data=['LazilyIndexedArray', 'LazilyIndexedWrapper', 'Array']; "
                            'wrapper=(\'tuple(int:4, int:6)\', "dtype(\'uint16\')", \'SerializableLock\', '
                            "'Array'); values=ndarray[<u2(4, 6)][[0, 3, 6, 9, 12, 15], [18, 21, 24, 27, 30, "
                            "33], [36, 39, 42, 45, 48, 51], [54, 57, 60, 63, 66, 69]]; io=[('open', "
                            "('second',), {'mode': 'rb'}), 'enter', ('seek', (16,), {}), ('read', (12,), "
                            "{}), ('seek', (44,), {}), ('read', (12,), {}), ('seek', (72,), {}), ('read', "
                            "(12,), {}), ('seek', (100,), {}), ('read', (12,), {}), 'exit']}; var "
                            "rows={type=IndexVariable; dims=tuple(str:'rows'); shape=tuple(int:4); "
                            "dtype=dtype('float64'); attrs=dict{}; encoding=dict{}; in_memory=True; "
                            "data=['PandasIndexingAdapter', 'Index', 'NumpyExtensionArray']; "
                            'values=ndarray[<f8(4,)][0.0, 2.5, 5.0, 7.5]; io=[]}; var meta={type=Variable; '
                            "dims=tuple(str:'rows'); shape=tuple(int:4); dtype=dtype('uint16'); "
                            "attrs=dict{}; encoding=dict{str:'preferred_chunksizes': dict{str:'rows': "
                            "int:2}}; in_memory=False; data=['LazilyIndexedArray', 'LazilyIndexedWrapper', "
                            '\'Array\']; wrapper=(\'tuple(int:4)\', "dtype(\'uint16\')", '
                            "'SerializableLock', 'Array'); values=ndarray[<u2(4, 1)][[0], [3], [6], [9]]; "
                            "io=[('open', ('file-4-2-uint16',), {'mode': 'rb'}), 'enter', ('seek', (16,), "
                            "{}), ('read', (20,), {}), ('seek', (52,), {}), ('read', (20,), {}), 'exit']}} "
                            'attrs_untouched=True || locks=3 chunk_calls=[] || io=[]',
 'to_datatree lazy default': "{type=DataTree; paths=['/']; node /={type=Dataset; data_vars=['data', "
                             "'other']; coords=['rows', 'meta']; variables=['data', 'other', 'rows', "
                             "'meta']; sizes=dict{str:'rows': int:4, str:'cols': int:6}; "
                             "attrs=dict{str:'title': str:'lazy'}; encoding=dict{}; indexes=['rows']; var "
                             "data={type=Variable; dims=tuple(str:'rows', str:'cols'); shape=tuple(int:4, "
                             "int:6); dtype=dtype('uint16'); attrs=dict{str:'units': str:'dn'}; "
                             "encoding=dict{str:'preferred_chunksizes': dict{str:'rows': int:3, str:'cols': "
                             "int:6}}; in_memory=False; data=['LazilyIndexedArray', 'LazilyIndexedWrapper', "
                             '\'Array\']; wrapper=(\'tuple(int:4, int:6)\', "dtype(\'uint16\')", '
                             "'SerializableLock', 'Array'); values=ndarray[<u2(4, 6)][[0, 3, 6, 9, 12, 15], "
                             '[18, 21, 24, 27, 30, 33], [36, 39, 42, 45, 48, 51], [54, 57, 60, 63, 66, 69]]; '
                             "io=[('open', ('file-4x6-3-uint16',), {'mode': 'rb'}), 'enter', ('seek', (16,), "
                             "{}), ('read', (68,), {}), ('seek', (100,), {}), ('read', (12,), {}), 'exit']}; "
                             "var other={type=Variable; dims=tuple(str:'rows', str:'cols'); "
                             "shape=tuple(int:4, int:6); dtype=dtype('uint16'); attrs=dict{}; "
                             "encoding=dict{str:'preferred_chunksizes': dict{str:'rows': int:1, str:'cols': "
                             "int:6}}; in_memory=False; data=['LazilyIndexedArray', 'LazilyIndexedWrapper', "
                             '\'Array\']; wrapper=(\'tuple(int:4, int:6)\', "dtype(\'uint16\')", '
                             "'SerializableLock', 'Array'); values=ndarray[<u2(4, 6)][[0, 3, 6, 9, 12, 15], "
                             '[18, 21, 24, 27, 30, 33], [36, 39, 42, 45, 48, 51], [54, 57, 60, 63, 66, 69]]; '
                             "io=[('open', ('second',), {'mode': 'rb'}), 'enter', ('seek', (16,), {}), "
                             "('read', (12,), {}), ('seek', (44,), {}), ('read', (12,), {}), ('seek', (72,), "
                             "{}), ('read', (12,), {}), ('seek', (100,), {}), ('read', (12,), {}), 'exit']}; "
                             "var rows={type=IndexVariable; dims=tuple(str:'rows'); shape=tuple(int:4); "
                             "dtype=dtype('float64'); attrs=dict{}; encoding=dict{}; in_memory=True; "
                             "data=['PandasIndexingAdapter', 'Index', 'NumpyExtensionArray']; "
                             'values=ndarray[<f8(4,)][0.0, 2.5, 5.0, 7.5]; io=[]}; var meta={type=Variable; '
                             "dims=tuple(str:'rows'); shape=tuple(int:4); dtype=dtype('uint16'); "
                             "attrs=dict{}; encoding=dict{str:'preferred_chunksizes': dict{str:'rows': "
                             "int:2}}; in_memory=False; data=['LazilyIndexedArray', 'LazilyIndexedWrapper', "
                             '\'Array\']; wrapper=(\'tuple(int:4)\', "dtype(\'uint16\')", '
                             "'SerializableLock', 'Array'); values=ndarray[<u2(4, 1)][[0], [3], [6], [9]]; "
                             "io=[('open', ('file-4-2-uint16',), {'mode': 'rb'}), 'enter', ('seek', (16,), "
                             "{}), ('read', (20,), {}), ('seek', (52,), {}), ('read', (20,), {}), 'exit']}}; "
                             'children /=[]} attrs_untouched=True || locks=6 chunk_calls=[] || io=[]',
 'to_dataset conflicting-sizes chunks=None keyword': 'raise builtins.ValueError: conflicting sizes for '
                                                     "dimension 'x': length 4 on 'b' and length 3 on {'x': "
                                                     "'a'} || locks=0 chunk_calls=[] || io=[]",
 'to_datatree conflicting-sizes chunks=None keyword': 'raise builtins.ValueError: conflicting sizes for '
                                                      "dimension 'x': length 4 on 'b' and length 3 on {'x': "
                                                      "'a'} || locks=0 chunk_calls=[] || io=[]",
 'to_dataset conflicting-sizes chunks=None positional': 'raise builtins.ValueError: conflicting sizes for '
                                                        "dimension 'x': length 4 on 'b' and length 3 on "
                                                        "{'x': 'a'} || locks=0 chunk_calls=[] || io=[]",
 'to_datatree conflicting-sizes chunks=None positional': 'raise builtins.ValueError: conflicting sizes for '
                                                         "dimension 'x': length 4 on 'b' and length 3 on "
                                                         "{'x': 'a'} || locks=0 chunk_calls=[] || io=[]",
 'to_dataset conflicting-sizes chunks=x1y2 keyword': 'raise builtins.ValueError: conflicting sizes for '
                                                     "dimension 'x': length 4 on 'b' and length 3 on {'x': "
                                                     "'a'} || locks=0 chunk_calls=[] || io=[]",
 'to_datatree conflicting-sizes chunks=x1y2 keyword': 'raise builtins.ValueError: conflicting sizes for '
                                                      "dimension 'x': length 4 on 'b' and length 3 on {'x': "
                                                      "'a'} || locks=0 chunk_calls=[] || io=[]",
 'to_dataset conflicting-sizes chunks=rows keyword': 'raise builtins.ValueError: conflicting sizes for '
                                                     "dimension 'x': length 4 on 'b' and length 3 on {'x': "
                                                     "'a'} || locks=0 chunk_calls=[] || io=[]",
 'to_datatree conflicting-sizes chunks=rows keyword': 'raise builtins.ValueError: conflicting sizes for '
                                                      "dimension 'x': length 4 on 'b' and length 3 on {'x': "
                                                      "'a'} || locks=0 chunk_calls=[] || io=[]",
 'to_dataset conflicting-sizes chunks=rows positional': 'raise builtins.ValueError: conflicting sizes for '
                                                        "dimension 'x': length 4 on 'b' and length 3 on "
                                                        "{'x': 'a'} || locks=0 chunk_calls=[] || io=[]",
 'to_datatree conflicting-sizes chunks=rows positional': 'raise builtins.ValueError: conflicting sizes for '
                                                         "dimension 'x': length 4 on 'b' and length 3 on "
                                                         "{'x': 'a'} || locks=0 chunk_calls=[] || io=[]",
 'to_dataset conflicting-sizes chunks=-1 keyword': 'raise builtins.ValueError: conflicting sizes for '
                                                   "dimension 'x': length 4 on 'b' and length 3 on {'x': "
                                                   "'a'} || locks=0 chunk_calls=[] || io=[]",
 'to_datatree conflicting-sizes chunks=-1 keyword': 'raise builtins.ValueError: conflicting sizes for '
                                                    "dimension 'x': length 4 on 'b' and length 3 on {'x': "
                                                    "'a'} || locks=0 chunk_calls=[] || io=[]",
 'to_dataset conflicting-sizes chunks=-1 positional': 'raise builtins.ValueError: conflicting sizes for '
                                                      "dimension 'x': length 4 on 'b' and length 3 on {'x': "
                                                      "'a'} || locks=0 chunk_calls=[] || io=[]",
 'to_datatree conflicting-sizes chunks=-1 positional': 'raise builtins.ValueError: conflicting sizes for '
                                                       "dimension 'x': length 4 on 'b' and length 3 on {'x': "
                                                       "'a'} || locks=0 chunk_calls=[] || io=[]",
 'to_dataset conflicting-sizes default': "raise builtins.ValueError: conflicting sizes for dimension 'x': "
                                         "length 4 on 'b' and length 3 on {'x': 'a'} || locks=0 "
                                         'chunk_calls=[] || io=[]',
 'to_datatree conflicting-sizes default': "raise builtins.ValueError: conflicting sizes for dimension 'x': "
                                          "length 4 on 'b' and length 3 on {'x': 'a'} || locks=0 "
                                          'chunk_calls=[] || io=[]',
 'to_dataset bad-variable chunks=None keyword': "raise builtins.ValueError: dimensions ('x',) must have the "
                                                'same length as the number of data dimensions, ndim=2 || '
                                                'locks=0 chunk_calls=[] || io=[]',
 'to_datatree bad-variable chunks=None keyword': "raise builtins.ValueError: dimensions ('x',) must have the "
                                                 'same length as the number of data dimensions, ndim=2 || '
                                                 'locks=0 chunk_calls=[] || io=[]',
 'to_dataset bad-variable chunks=None positional': "raise builtins.ValueError: dimensions ('x',) must have "
                                                   'the same length as the number of data dimensions, ndim=2 '
                                                   '|| locks=0 chunk_calls=[] || io=[]',
 'to_datatree bad-variable chunks=None positional': "raise builtins.ValueError: dimensions ('x',) must have "
                                                    'the same length as the number of data dimensions, '
                                                    'ndim=2 || locks=0 chunk_calls=[] || io=[]',
 'to_dataset bad-variable chunks=x1y2 keyword': "raise builtins.ValueError: dimensions ('x',) must have the "
                                                'same length as the number of data dimensions, ndim=2 || '
                                                'locks=0 chunk_calls=[] || io=[]',
 'to_datatree bad-variable chunks=x1y2 keyword': "raise builtins.ValueError: dimensions ('x',) must have the "
                                                 'same length as the number of data dimensions, ndim=2 || '
                                                 'locks=0 chunk_calls=[] || io=[]',
 'to_dataset bad-variable chunks=rows keyword': "raise builtins.ValueError: dimensions ('x',) must have the "
                                                'same length as the number of data dimensions, ndim=2 || '
                                                'locks=0 chunk_calls=[] || io=[]',
 'to_datatree bad-variable chunks=rows keyword': "raise builtins.ValueError: dimensions ('x',) must have the "
                                                 'same length as the number of data dimensions, ndim=2 || '
                                                 'locks=0 chunk_calls=[] || io=[]',
 'to_dataset bad-variable chunks=rows positional': "raise builtins.ValueError: dimensions ('x',) must have "
                                                   'the same length as the number of data dimensions, ndim=2 '
                                                   '|| locks=0 chunk_calls=[] || io=[]',
 'to_datatree bad-variable chunks=rows positional': "raise builtins.ValueError: dimensions ('x',) must have "
                                                    'the same length as the number of data dimensions, '
                                                    'ndim=2 || locks=0 chunk_calls=[] || io=[]',
 'to_dataset bad-variable chunks=-1 keyword': "raise builtins.ValueError: dimensions ('x',) must have the "
                                              'same length as the number of data dimensions, ndim=2 || '
                                              'locks=0 chunk_calls=[] || io=[]',
 'to_datatree bad-variable chunks=-1 keyword': "raise builtins.ValueError: dimensions ('x',) must have the "
                                               'same length as the number of data dimensions, ndim=2 || '
                                               'locks=0 chunk_calls=[] || io=[]',
 'to_dataset bad-variable chunks=-1 positional': "raise builtins.ValueError: dimensions ('x',) must have the "
                                                 'same length as the number of data dimensions, ndim=2 || '
                                                 'locks=0 chunk_calls=[] || io=[]',
 'to_datatree bad-variable chunks=-1 positional': "raise builtins.ValueError: dimensions ('x',) must have "
                                                  'the same length as the number of data dimensions, ndim=2 '
                                                  '|| locks=0 chunk_calls=[] || io=[]',
 'to_dataset bad-variable default': "raise builtins.ValueError: dimensions ('x',) must have the same length "
                                    'as the number of data dimensions, ndim=2 || locks=0 chunk_calls=[] || '
                                    'io=[]',
 'to_datatree bad-variable default': "raise builtins.ValueError: dimensions ('x',) must have the same length "
                                     'as the number of data dimensions, ndim=2 || locks=0 chunk_calls=[] || '
                                     'io=[]',
 'to_dataset nested chunks=None keyword': "{type=Dataset; data_vars=['c']; coords=['a']; variables=['c', "
                                          "'a']; sizes=dict{str:'x': int:3}; attrs=dict{str:'root': "
                                          'bool:True}; encoding=dict{}; indexes=[]; var c={type=Variable; '
                                          "dims=tuple(str:'x'); shape=tuple(int:3); dtype=dtype('int8'); "
                                          "attrs=dict{str:'a': int:1}; encoding=dict{}; in_memory=True; "
                                          "data=['ndarray']; values=ndarray[|i1(3,)][1, 2, 3]; io=[]}; var "
                                          "a={type=Variable; dims=tuple(str:'x'); shape=tuple(int:3); "
                                          "dtype=dtype('int8'); attrs=dict{}; encoding=dict{}; "
                                          "in_memory=True; data=['ndarray']; values=ndarray[|i1(3,)][4, 5, "
                                          '6]; io=[]}} attrs_untouched=True || locks=0 chunk_calls=[] || '
                                          'io=[]',
 'to_datatree nested chunks=None keyword': "{type=DataTree; paths=['/', '/d', '/b', '/b/inner', '/b/inner2', "
                                           "'/b/inner2/deep']; node /={type=Dataset; data_vars=['c']; "
                                           "coords=['a']; variables=['c', 'a']; sizes=dict{str:'x': int:3}; "
                                           "attrs=dict{str:'root': bool:True}; encoding=dict{}; indexes=[]; "
                                           "var c={type=Variable; dims=tuple(str:'x'); shape=tuple(int:3); "
                                           "dtype=dtype('int8'); attrs=dict{str:'a': int:1}; "
                                           "encoding=dict{}; in_memory=True; data=['ndarray']; "
                                           'values=ndarray[|i1(3,)][1, 2, 3]; io=[]}; var a={type=Variable; '
                                           "dims=tuple(str:'x'); shape=tuple(int:3); dtype=dtype('int8'); "
                                           "attrs=dict{}; encoding=dict{}; in_memory=True; data=['ndarray']; "
                                           "values=ndarray[|i1(3,)][4, 5, 6]; io=[]}}; children /=['d', "
                                           "'b']; node /d={type=Dataset; data_vars=['e']; coords=[]; "
                                           "variables=['e']; sizes=dict{str:'x': int:3, str:'y': int:4}; "
                                           "attrs=dict{str:'level': str:'e'}; encoding=dict{}; indexes=[]; "
                                           "var e={type=Variable; dims=tuple(str:'x', str:'y'); "
                                           "shape=tuple(int:3, int:4); dtype=dtype('int64'); "
                                           "attrs=dict{str:'b': str:'abc'}; encoding=dict{}; in_memory=True; "
                                           "data=['ndarray']; values=ndarray[<i8(3, 4)][[0, 1, 2, 3], [4, 5, "
                                           '6, 7], [8, 9, 10, 11]]; io=[]}}; children /d=[]; node '
                                           "/b={type=Dataset; data_vars=[]; coords=['v']; variables=['v']; "
                                           "sizes=dict{str:'z': int:2}; attrs=dict{}; encoding=dict{}; "
                                           "indexes=[]; var v={type=Variable; dims=tuple(str:'z'); "
                                           "shape=tuple(int:2); dtype=dtype('int64'); attrs=dict{}; "
                                           "encoding=dict{}; in_memory=True; data=['ndarray']; "
                                           "values=ndarray[<i8(2,)][0, 1]; io=[]}}; children /b=['inner', "
                                           "'inner2']; node /b/inner={type=Dataset; data_vars=['f']; "
                                           "coords=[]; variables=['f']; sizes=dict{str:'x': int:3, str:'y': "
                                           "int:4}; attrs=dict{str:'level': str:'f'}; encoding=dict{}; "
                                           "indexes=[]; var f={type=Variable; dims=tuple(str:'x', str:'y'); "
                                           "shape=tuple(int:3, int:4); dtype=dtype('int64'); "
                                           "attrs=dict{str:'b': str:'abc'}; encoding=dict{}; in_memory=True; "
                                           "data=['ndarray']; values=ndarray[<i8(3, 4)][[0, 1, 2, 3], [4, 5, "
                                           '6, 7], [8, 9, 10, 11]]; io=[]}}; children /b/inner=[]; node '
                                           '/b/inner2={type=Dataset; data_vars=[]; coords=[]; variables=[]; '
                                           "sizes=dict{}; attrs=dict{str:'n': int:2}; encoding=dict{}; "
                                           "indexes=[]}; children /b/inner2=['deep']; node "
                                           "/b/inner2/deep={type=Dataset; data_vars=['g']; coords=[]; "
                                           "variables=['g']; sizes=dict{str:'x': int:3, str:'y': int:4}; "
                                           "attrs=dict{str:'level': str:'g'}; encoding=dict{}; indexes=[]; "
                                           "var g={type=Variable; dims=tuple(str:'x', str:'y'); "
                                           "shape=tuple(int:3, int:4); dtype=dtype('int64'); "
                                           "attrs=dict{str:'b': str:'abc'}; encoding=dict{}; in_memory=True; "
                                           "data=['ndarray']; values=ndarray[<i8(3, 4)][[0, 1, 2, 3], [4, 5, "
                                           '6, 7], [8, 9, 10, 11]]; io=[]}}; children /b/inner2/deep=[]} '
                                           'attrs_untouched=True || locks=0 chunk_calls=[] || io=[]',
 'to_dataset nested chunks=None positional': "{type=Dataset; data_vars=['c']; coords=['a']; variables=['c', "
                                             "'a']; sizes=dict{str:'x': int:3}; attrs=dict{str:'root': "
                                             'bool:True}; encoding=dict{}; indexes=[]; var c={type=Variable; '
                                             "dims=tuple(str:'x'); shape=tuple(int:3); dtype=dtype('int8'); "
                                             "attrs=dict{str:'a': int:1}; encoding=dict{}; in_memory=True; "
                                             "data=['ndarray']; values=ndarray[|i1(3,)][1, 2, 3]; io=[]}; "
                                             "var a={type=Variable; dims=tuple(str:'x'); shape=tuple(int:3); "
                                             "dtype=dtype('int8'); attrs=dict{}; encoding=dict{}; "
                                             "in_memory=True; data=['ndarray']; values=ndarray[|i1(3,)][4, "
                                             '5, 6]; io=[]}} attrs_untouched=True || locks=0 chunk_calls=[] '
                                             '|| io=[]',
 'to_datatree nested chunks=None positional': "{type=DataTree; paths=['/', '/d', '/b', '/b/inner', "
                                              "'/b/inner2', '/b/inner2/deep']; node /={type=Dataset; "
                                              "data_vars=['c']; coords=['a']; variables=['c', 'a']; "
                                              "sizes=dict{str:'x': int:3}; attrs=dict{str:'root': "
                                              'bool:True}; encoding=dict{}; indexes=[]; var '
                                              "c={type=Variable; dims=tuple(str:'x'); shape=tuple(int:3); "
                                              "dtype=dtype('int8'); attrs=dict{str:'a': int:1}; "
                                              "encoding=dict{}; in_memory=True; data=['ndarray']; "
                                              'values=ndarray[|i1(3,)][1, 2, 3]; io=[]}; var '
                                              "a={type=Variable; dims=tuple(str:'x'); shape=tuple(int:3); "
                                              "dtype=dtype('int8'); attrs=dict{}; encoding=dict{}; "
                                              "in_memory=True; data=['ndarray']; values=ndarray[|i1(3,)][4, "
                                              "5, 6]; io=[]}}; children /=['d', 'b']; node /d={type=Dataset; "
                                              "data_vars=['e']; coords=[]; variables=['e']; "
                                              "sizes=dict{str:'x': int:3, str:'y': int:4}; "
                                              "attrs=dict{str:'level': str:'e'}; encoding=dict{}; "
                                              "indexes=[]; var e={type=Variable; dims=tuple(str:'x', "
                                              "str:'y'); shape=tuple(int:3, int:4); dtype=dtype('int64'); "
                                              "attrs=dict{str:'b': str:'abc'}; encoding=dict{}; "
                                              "in_memory=True; data=['ndarray']; values=ndarray[<i8(3, "
                                              '4)][[0, 1, 2, 3], [4, 5, 6, 7], [8, 9, 10, 11]]; io=[]}}; '
                                              'children /d=[]; node /b={type=Dataset; data_vars=[]; '
                                              "coords=['v']; variables=['v']; sizes=dict{str:'z': int:2}; "
                                              'attrs=dict{}; encoding=dict{}; indexes=[]; var '
                                              "v={type=Variable; dims=tuple(str:'z'); shape=tuple(int:2); "
                                              "dtype=dtype('int64'); attrs=dict{}; encoding=dict{}; "
                                              "in_memory=True; data=['ndarray']; values=ndarray[<i8(2,)][0, "
                                              "1]; io=[]}}; children /b=['inner', 'inner2']; node "
                                              "/b/inner={type=Dataset; data_vars=['f']; coords=[]; "
                                              "variables=['f']; sizes=dict{str:'x': int:3, str:'y': int:4}; "
                                              "attrs=dict{str:'level': str:'f'}; encoding=dict{}; "
                                              "indexes=[]; var f={type=Variable; dims=tuple(str:'x', "
                                              "str:'y'); shape=tuple(int:3, int:4); dtype=dtype('int64'); "
                                              "attrs=dict{str:'b': str:'abc'}; encoding=dict{}; "
                                              "in_memory=True; data=['ndarray']; values=ndarray[<i8(3, "
                                              '4)][[0, 1, 2, 3], [4, 5, 6, 7], [8, 9, 10, 11]]; io=[]}}; '
                                              'children /b/inner=[]; node /b/inner2={type=Dataset; '
                                              'data_vars=[]; coords=[]; variables=[]; sizes=dict{}; '
                                              "attrs=dict{str:'n': int:2}; encoding=dict{}; indexes=[]}; "
                                              "children /b/inner2=['deep']; node "
                                              "/b/inner2/deep={type=Dataset; data_vars=['g']; coords=[]; "
                                              "variables=['g']; sizes=dict{str:'x': int:3, str:'y': int:4}; "
                                              "attrs=dict{str:'level': str:'g'}; encoding=dict{}; "
                                              "indexes=[]; var g={type=Variable; dims=tuple(str:'x', "
                                              "str:'y'); shape=tuple(int:3, int:4); dtype=dtype('int64'); "
                                              "attrs=dict{str:'b': str:'abc'}; encoding=dict{}; "
                                              "in_memory=True; data=['ndarray']; values=ndarray[<i8(3, "
                                              '4)][[0, 1, 2, 3], [4, 5, 6, 7], [8, 9, 10, 11]]; io=[]}}; '
                                              'children /b/inner2/deep=[]} attrs_untouched=True || locks=0 '
                                              'chunk_calls=[] || io=[]',
 'to_dataset nested chunks={} keyword': "{type=Dataset; data_vars=['c']; coords=['a']; variables=['c', 'a']; "
                                        "sizes=dict{str:'x': int:3}; attrs=dict{str:'root': bool:True}; "
                                        'encoding=dict{}; indexes=[]; var c={type=Variable; '
                                        "dims=tuple(str:'x'); shape=tuple(int:3); dtype=dtype('int8'); "
                                        "attrs=dict{str:'a': int:1}; encoding=dict{}; in_memory=True; "
                                        "data=['ndarray']; values=ndarray[|i1(3,)][1, 2, 3]; io=[]}; var "
                                        "a={type=Variable; dims=tuple(str:'x'); shape=tuple(int:3); "
                                        "dtype=dtype('int8'); attrs=dict{}; encoding=dict{}; in_memory=True; "
                                        "data=['ndarray']; values=ndarray[|i1(3,)][4, 5, 6]; io=[]}} "
                                        "attrs_untouched=True || locks=0 chunk_calls=[('tuple(dict{})', "
                                        "'dict{}', ['c', 'a'])] || io=[]",
 'to_datatree nested chunks={} keyword': "{type=DataTree; paths=['/', '/d', '/b', '/b/inner', '/b/inner2', "
                                         "'/b/inner2/deep']; node /={type=Dataset; data_vars=['c']; "
                                         "coords=['a']; variables=['c', 'a']; sizes=dict{str:'x': int:3}; "
                                         "attrs=dict{str:'root': bool:True}; encoding=dict{}; indexes=[]; "
                                         "var c={type=Variable; dims=tuple(str:'x'); shape=tuple(int:3); "
                                         "dtype=dtype('int8'); attrs=dict{str:'a': int:1}; encoding=dict{}; "
                                         "in_memory=True; data=['ndarray']; values=ndarray[|i1(3,)][1, 2, "
                                         "3]; io=[]}; var a={type=Variable; dims=tuple(str:'x'); "
                                         "shape=tuple(int:3); dtype=dtype('int8'); attrs=dict{}; "
                                         "encoding=dict{}; in_memory=True; data=['ndarray']; "
                                         "values=ndarray[|i1(3,)][4, 5, 6]; io=[]}}; children /=['d', 'b']; "
                                         "node /d={type=Dataset; data_vars=['e']; coords=[]; "
                                         "variables=['e']; sizes=dict{str:'x': int:3, str:'y': int:4}; "
                                         "attrs=dict{str:'level': str:'e'}; encoding=dict{}; indexes=[]; var "
                                         "e={type=Variable; dims=tuple(str:'x', str:'y'); shape=tuple(int:3, "
                                         "int:4); dtype=dtype('int64'); attrs=dict{str:'b': str:'abc'}; "
                                         "encoding=dict{}; in_memory=True; data=['ndarray']; "
                                         'values=ndarray[<i8(3, 4)][[0, 1, 2, 3], [4, 5, 6, 7], [8, 9, 10, '
                                         '11]]; io=[]}}; children /d=[]; node /b={type=Dataset; '
                                         "data_vars=[]; coords=['v']; variables=['v']; sizes=dict{str:'z': "
                                         'int:2}; attrs=dict{}; encoding=dict{}; indexes=[]; var '
                                         "v={type=Variable; dims=tuple(str:'z'); shape=tuple(int:2); "
                                         "dtype=dtype('int64'); attrs=dict{}; encoding=dict{}; "
                                         "in_memory=True; data=['ndarray']; values=ndarray[<i8(2,)][0, 1]; "
                                         "io=[]}}; children /b=['inner', 'inner2']; node "
                                         "/b/inner={type=Dataset; data_vars=['f']; coords=[]; "
                                         "variables=['f']; sizes=dict{str:'x': int:3, str:'y': int:4}; "
                                         "attrs=dict{str:'level': str:'f'}; encoding=dict{}; indexes=[]; var "
                                         "f={type=Variable; dims=tuple(str:'x', str:'y'); shape=tuple(int:3, "
                                         "int:4); dtype=dtype('int64'); attrs=dict{str:'b': str:'abc'}; "
                                         "encoding=dict{}; in_memory=True; data=['ndarray']; "
                                         'values=ndarray[<i8(3, 4)][[0, 1, 2, 3], [4, 5, 6, 7], [8, 9, 10, '
                                         '11]]; io=[]}}; children /b/inner=[]; node /b/inner2={type=Dataset; '
                                         'data_vars=[]; coords=[]; variables=[]; sizes=dict{}; '
                                         "attrs=dict{str:'n': int:2}; encoding=dict{}; indexes=[]}; children "
                                         "/b/inner2=['deep']; node /b/inner2/deep={type=Dataset; "
                                         "data_vars=['g']; coords=[]; variables=['g']; sizes=dict{str:'x': "
                                         "int:3, str:'y': int:4}; attrs=dict{str:'level': str:'g'}; "
                                         'encoding=dict{}; indexes=[]; var g={type=Variable; '
                                         "dims=tuple(str:'x', str:'y'); shape=tuple(int:3, int:4); "
                                         "dtype=dtype('int64'); attrs=dict{str:'b': str:'abc'}; "
                                         "encoding=dict{}; in_memory=True; data=['ndarray']; "
                                         'values=ndarray[<i8(3, 4)][[0, 1, 2, 3], [4, 5, 6, 7], [8, 9, 10, '
                                         '11]]; io=[]}}; children /b/inner2/deep=[]} attrs_untouched=True || '
                                         "locks=0 chunk_calls=[('tuple(dict{})', 'dict{}', ['c', 'a']), "
                                         "('tuple(dict{})', 'dict{}', ['c', 'a']), ('tuple(dict{})', "
                                         "'dict{}', ['e']), ('tuple(dict{})', 'dict{}', ['v']), "
                                         "('tuple(dict{})', 'dict{}', ['f']), ('tuple(dict{})', 'dict{}', "
                                         "[]), ('tuple(dict{})', 'dict{}', ['g'])] || io=[]",
 'to_dataset nested chunks=x1y2 keyword': "{type=Dataset; data_vars=['c']; coords=['a']; variables=['c', "
                                          "'a']; sizes=dict{str:'x': int:3}; attrs=dict{str:'root': "
                                          'bool:True}; encoding=dict{}; indexes=[]; var c={type=Variable; '
                                          "dims=tuple(str:'x'); shape=tuple(int:3); dtype=dtype('int8'); "
                                          "attrs=dict{str:'a': int:1}; encoding=dict{}; in_memory=True; "
                                          "data=['ndarray']; values=ndarray[|i1(3,)][1, 2, 3]; io=[]}; var "
                                          "a={type=Variable; dims=tuple(str:'x'); shape=tuple(int:3); "
                                          "dtype=dtype('int8'); attrs=dict{}; encoding=dict{}; "
                                          "in_memory=True; data=['ndarray']; values=ndarray[|i1(3,)][4, 5, "
                                          '6]; io=[]}} attrs_untouched=True || locks=0 '
                                          'chunk_calls=[("tuple(dict{str:\'x\': int:1})", \'dict{}\', '
                                          "['c', 'a'])] || io=[]",
 'to_datatree nested chunks=x1y2 keyword': "{type=DataTree; paths=['/', '/d', '/b', '/b/inner', '/b/inner2', "
                                           "'/b/inner2/deep']; node /={type=Dataset; data_vars=['c']; "
                                           "coords=['a']; variables=['c', 'a']; sizes=dict{str:'x': int:3}; "
                                           "attrs=dict{str:'root': bool:True}; encoding=dict{}; indexes=[]; "
                                           "var c={type=Variable; dims=tuple(str:'x'); shape=tuple(int:3); "
                                           "dtype=dtype('int8'); attrs=dict{str:'a': int:1}; "
                                           "encoding=dict{}; in_memory=True; data=['ndarray']; "
                                           'values=ndarray[|i1(3,)][1, 2, 3]; io=[]}; var a={type=Variable; '
                                           "dims=tuple(str:'x'); shape=tuple(int:3); dtype=dtype('int8'); "
                                           "attrs=dict{}; encoding=dict{}; in_memory=True; data=['ndarray']; "
                                           "values=ndarray[|i1(3,)][4, 5, 6]; io=[]}}; children /=['d', "
                                           "'b']; node /d={type=Dataset; data_vars=['e']; coords=[]; "
                                           "variables=['e']; sizes=dict{str:'x': int:3, str:'y': int:4}; "
                                           "attrs=dict{str:'level': str:'e'}; encoding=dict{}; indexes=[]; "
                                           "var e={type=Variable; dims=tuple(str:'x', str:'y'); "
                                           "shape=tuple(int:3, int:4); dtype=dtype('int64'); "
                                           "attrs=dict{str:'b': str:'abc'}; encoding=dict{}; in_memory=True; "
                                           "data=['ndarray']; values=ndarray[<i8(3, 4)][[0, 1, 2, 3], [4, 5, "
                                           '6, 7], [8, 9, 10, 11]]; io=[]}}; children /d=[]; node '
                                           "/b={type=Dataset; data_vars=[]; coords=['v']; variables=['v']; "
                                           "sizes=dict{str:'z': int:2}; attrs=dict{}; encoding=dict{}; "
                                           "indexes=[]; var v={type=Variable; dims=tuple(str:'z'); "
                                           "shape=tuple(int:2); dtype=dtype('int64'); attrs=dict{}; "
                                           "encoding=dict{}; in_memory=True; data=['ndarray']; "
                                           "values=ndarray[<i8(2,)][0, 1]; io=[]}}; children /b=['inner', "
                                           "'inner2']; node /b/inner={type=Dataset; data_vars=['f']; "
                                           "coords=[]; variables=['f']; sizes=dict{str:'x': int:3, str:'y': "
                                           "int:4}; attrs=dict{str:'level': str:'f'}; encoding=dict{}; "
                                           "indexes=[]; var f={type=Variable; dims=tuple(str:'x', str:'y'); "
                                           "shape=tuple(int:3, int:4); dtype=dtype('int64'); "
                                           "attrs=dict{str:'b': str:'abc'}; encoding=dict{}; in_memory=True; "
                                           "data=['ndarray']; values=ndarray[<i8(3, 4)][[0, 1, 2, 3], [4, 5, "
                                           '6, 7], [8, 9, 10, 11]]; io=[]}}; children /b/inner=[]; node '
                                           '/b/inner2={type=Dataset; data_vars=[]; coords=[]; variables=[]; '
                                           "sizes=dict{}; attrs=dict{str:'n': int:2}; encoding=dict{}; "
                                           "indexes=[]}; children /b/inner2=['deep']; node "
                                           "/b/inner2/deep={type=Dataset; data_vars=['g']; coords=[]; "
                                           "variables=['g']; sizes=dict{str:'x': int:3, str:'y': int:4}; "
                                           "attrs=dict{str:'level': str:'g'}; encoding=dict{}; indexes=[]; "
                                           "var g={type=Variable; dims=tuple(str:'x', str:'y'); "
                                           "shape=tuple(int:3, int:4); dtype=dtype('int64'); "
                                           "attrs=dict{str:'b': str:'abc'}; encoding=dict{}; in_memory=True; "
                                           "data=['ndarray']; values=ndarray[<i8(3, 4)][[0, 1, 2, 3], [4, 5, "
                                           '6, 7], [8, 9, 10, 11]]; io=[]}}; children /b/inner2/deep=[]} '
                                           'attrs_untouched=True || locks=0 '
                                           'chunk_calls=[("tuple(dict{str:\'x\': int:1})", \'dict{}\', '
                                           '[\'c\', \'a\']), ("tuple(dict{str:\'x\': int:1})", \'dict{}\', '
                                           '[\'c\', \'a\']), ("tuple(dict{str:\'x\': int:1, str:\'y\': '
                                           'int:2})", \'dict{}\', [\'e\']), (\'tuple(dict{})\', \'dict{}\', '
                                           '[\'v\']), ("tuple(dict{str:\'x\': int:1, str:\'y\': int:2})", '
                                           "'dict{}', ['f']), ('tuple(dict{})', 'dict{}', []), "
                                           '("tuple(dict{str:\'x\': int:1, str:\'y\': int:2})", \'dict{}\', '
                                           "['g'])] || io=[]",
 'to_dataset nested chunks=rows keyword': "{type=Dataset; data_vars=['c']; coords=['a']; variables=['c', "
                                          "'a']; sizes=dict{str:'x': int:3}; attrs=dict{str:'root': "
                                          'bool:True}; encoding=dict{}; indexes=[]; var c={type=Variable; '
                                          "dims=tuple(str:'x'); shape=tuple(int:3); dtype=dtype('int8'); "
                                          "attrs=dict{str:'a': int:1}; encoding=dict{}; in_memory=True; "
                                          "data=['ndarray']; values=ndarray[|i1(3,)][1, 2, 3]; io=[]}; var "
                                          "a={type=Variable; dims=tuple(str:'x'); shape=tuple(int:3); "
                                          "dtype=dtype('int8'); attrs=dict{}; encoding=dict{}; "
                                          "in_memory=True; data=['ndarray']; values=ndarray[|i1(3,)][4, 5, "
                                          '6]; io=[]}} attrs_untouched=True || locks=0 '
                                          "chunk_calls=[('tuple(dict{})', 'dict{}', ['c', 'a'])] || io=[]",
 'to_datatree nested chunks=rows keyword': "{type=DataTree; paths=['/', '/d', '/b', '/b/inner', '/b/inner2', "
                                           "'/b/inner2/deep']; node /={type=Dataset; data_vars=['c']; "
                                           "coords=['a']; variables=['c', 'a']; sizes=dict{str:'x': int:3}; "
                                           "attrs=dict{str:'root': bool:True}; encoding=dict{}; indexes=[]; "
                                           "var c={type=Variable; dims=tuple(str:'x'); shape=tuple(int:3); "
                                           "dtype=dtype('int8'); attrs=dict{str:'a': int:1}; "
                                           "encoding=dict{}; in_memory=True; data=['ndarray']; "
                                           'values=ndarray[|i1(3,)][1, 2, 3]; io=[]}; var a={type=Variable; '
                                           "dims=tuple(str:'x'); shape=tuple(int:3); dtype=dtype('int8'); "
                                           "attrs=dict{}; encoding=dict{}; in_memory=True; data=['ndarray']; "
                                           "values=ndarray[|i1(3,)][4, 5, 6]; io=[]}}; children /=['d', "
                                           "'b']; node /d={type=Dataset; data_vars=['e']; coords=[]; "
                                           "variables=['e']; sizes=dict{str:'x': int:3, str:'y': int:4}; "
                                           "attrs=dict{str:'level': str:'e'}; encoding=dict{}; indexes=[]; "
                                           "var e={type=Variable; dims=tuple(str:'x', str:'y'); "
                                           "shape=tuple(int:3, int:4); dtype=dtype('int64'); "
                                           "attrs=dict{str:'b': str:'abc'}; encoding=dict{}; in_memory=True; "
                                           "data=['ndarray']; values=ndarray[<i8(3, 4)][[0, 1, 2, 3], [4, 5, "
                                           '6, 7], [8, 9, 10, 11]]; io=[]}}; children /d=[]; node '
                                           "/b={type=Dataset; data_vars=[]; coords=['v']; variables=['v']; "
                                           "sizes=dict{str:'z': int:2}; attrs=dict{}; encoding=dict{}; "
                                           "indexes=[]; var v={type=Variable; dims=tuple(str:'z'); "
                                           "shape=tuple(int:2); dtype=dtype('int64'); attrs=dict{}; "
                                           "encoding=dict{}; in_memory=True; data=['ndarray']; "
                                           "values=ndarray[<i8(2,)][0, 1]; io=[]}}; children /b=['inner', "
                                           "'inner2']; node /b/inner={type=Dataset; data_vars=['f']; "
                                           "coords=[]; variables=['f']; sizes=dict{str:'x': int:3, str:'y': "
                                           "int:4}; attrs=dict{str:'level': str:'f'}; encoding=dict{}; "
                                           "indexes=[]; var f={type=Variable; dims=tuple(str:'x', str:'y'); "
                                           "shape=tuple(int:3, int:4); dtype=dtype('int64'); "
                                           "attrs=dict{str:'b': str:'abc'}; encoding=dict{}; in_memory=True; "
                                           "data=['ndarray']; values=ndarray[<i8(3, 4)][[0, 1, 2, 3], [4, 5, "
                                           '6, 7], [8, 9, 10, 11]]; io=[]}}; children /b/inner=[]; node '
                                           '/b/inner2={type=Dataset; data_vars=[]; coords=[]; variables=[]; '
                                           "sizes=dict{}; attrs=dict{str:'n': int:2}; encoding=dict{}; "
                                           "indexes=[]}; children /b/inner2=['deep']; node "
                                           "/b/inner2/deep={type=Dataset; data_vars=['g']; coords=[]; "
                                           "variables=['g']; sizes=dict{str:'x': int:3, str:'y': int:4}; "
                                           "attrs=dict{str:'level': str:'g'}; encoding=dict{}; indexes=[]; "
                                           "var g={type=Variable; dims=tuple(str:'x', str:'y'); "
                                           "shape=tuple(int:3, int:4); dtype=dtype('int64'); "
                                           "attrs=dict{str:'b': str:'abc'}; encoding=dict{}; in_memory=True; "
                                           "data=['ndarray']; values=ndarray[<i8(3, 4)][[0, 1, 2, 3], [4, 5, "
                                           '6, 7], [8, 9, 10, 11]]; io=[]}}; children /b/inner2/deep=[]} '
                                           "attrs_untouched=True || locks=0 chunk_calls=[('tuple(dict{})', "
                                           "'dict{}', ['c', 'a']), ('tuple(dict{})', 'dict{}', ['c', 'a']), "
                                           "('tuple(dict{})', 'dict{}', ['e']), ('tuple(dict{})', 'dict{}', "
                                           "['v']), ('tuple(dict{})', 'dict{}', ['f']), ('tuple(dict{})', "
                                           "'dict{}', []), ('tuple(dict{})', 'dict{}', ['g'])] || io=[]",
 'to_dataset nested chunks=rows positional': "{type=Dataset; data_vars=['c']; coords=['a']; variables=['c', "
                                             "'a']; sizes=dict{str:'x': int:3}; attrs=dict{str:'root': "
                                             'bool:True}; encoding=dict{}; indexes=[]; var c={type=Variable; '
                                             "dims=tuple(str:'x'); shape=tuple(int:3); dtype=dtype('int8'); "
                                             "attrs=dict{str:'a': int:1}; encoding=dict{}; in_memory=True; "
                                             "data=['ndarray']; values=ndarray[|i1(3,)][1, 2, 3]; io=[]}; "
                                             "var a={type=Variable; dims=tuple(str:'x'); shape=tuple(int:3); "
                                             "dtype=dtype('int8'); attrs=dict{}; encoding=dict{}; "
                                             "in_memory=True; data=['ndarray']; values=ndarray[|i1(3,)][4, "
                                             '5, 6]; io=[]}} attrs_untouched=True || locks=0 '
                                             "chunk_calls=[('tuple(dict{})', 'dict{}', ['c', 'a'])] || io=[]",
 'to_datatree nested chunks=rows positional': "{type=DataTree; paths=['/', '/d', '/b', '/b/inner', "
                                              "'/b/inner2', '/b/inner2/deep']; node /={type=Dataset; "
                                              "data_vars=['c']; coords=['a']; variables=['c', 'a']; "
                                              "sizes=dict{str:'x': int:3}; attrs=dict{str:'root': "
                                              'bool:True}; encoding=dict{}; indexes=[]; var '
                                              "c={type=Variable; dims=tuple(str:'x'); shape=tuple(int:3); "
                                              "dtype=dtype('int8'); attrs=dict{str:'a': int:1}; "
                                              "encoding=dict{}; in_memory=True; data=['ndarray']; "
                                              'values=ndarray[|i1(3,)][1, 2, 3]; io=[]}; var '
                                              "a={type=Variable; dims=tuple(str:'x'); shape=tuple(int:3); "
                                              "dtype=dtype('int8'); attrs=dict{}; encoding=dict{}; "
                                              "in_memory=True; data=['ndarray']; values=ndarray[|i1(3,)][4, "
                                              "5, 6]; io=[]}}; children /=['d', 'b']; node /d={type=Dataset; "
                                              "data_vars=['e']; coords=[]; variables=['e']; "
                                              "sizes=dict{str:'x': int:3, str:'y': int:4}; "
                                              "attrs=dict{str:'level': str:'e'}; encoding=dict{}; "
                                              "indexes=[]; var e={type=Variable; dims=tuple(str:'x', "
                                              "str:'y'); shape=tuple(int:3, int:4); dtype=dtype('int64'); "
                                              "attrs=dict{str:'b': str:'abc'}; encoding=dict{}; "
                                              "in_memory=True; data=['ndarray']; values=ndarray[<i8(3, "
                                              '4)][[0, 1, 2, 3], [4, 5, 6, 7], [8, 9, 10, 11]]; io=[]}}; '
                                              'children /d=[]; node /b={type=Dataset; data_vars=[]; '
                                              "coords=['v']; variables=['v']; sizes=dict{str:'z': int:2}; "
                                              'attrs=dict{}; encoding=dict{}; indexes=[]; var '
                                              "v={type=Variable; dims=tuple(str:'z'); shape=tuple(int:2); "
                                              "dtype=dtype('int64'); attrs=dict{}; encoding=dict{}; "
                                              "in_memory=True; data=['ndarray']; values=ndarray[<i8(2,)][0, "
                                              "1]; io=[]}}; children /b=['inner', 'inner2']; node "
                                              "/b/inner={type=Dataset; data_vars=['f']; coords=[]; "
                                              "variables=['f']; sizes=dict{str:'x': int:3, str:'y': int:4}; "
                                              "attrs=dict{str:'level': str:'f'}; encoding=dict{}; "
                                              "indexes=[]; var f={type=Variable; dims=tuple(str:'x', "
                                              "str:'y'); shape=tuple(int:3, int:4); dtype=dtype('int64'); "
                                              "attrs=dict{str:'b': str:'abc'}; encoding=dict{}; "
                                              "in_memory=True; data=['ndarray']; values=ndarray[<i8(3, "
                                              '4)][[0, 1, 2, 3], [4, 5, 6, 7], [8, 9, 10, 11]]; io=[]}}; '
                                              'children /b/inner=[]; node /b/inner2={type=Dataset; '
                                              'data_vars=[]; coords=[]; variables=[]; sizes=dict{}; '
                                              "attrs=dict{str:'n': int:2}; encoding=dict{}; indexes=[]}; "
                                              "children /b/inner2=['deep']; node "
                                              "/b/inner2/deep={type=Dataset; data_vars=['g']; coords=[]; "
                                              "variables=['g']; sizes=dict{str:'x': int:3, str:'y': int:4}; "
                                              "attrs=dict{str:'level': str:'g'}; encoding=dict{}; "
                                              "indexes=[]; var g={type=Variable; dims=tuple(str:'x', "
                                              "str:'y'); shape=tuple(int:3, int:4); dtype=dtype('int64'); "
                                              "attrs=dict{str:'b': str:'abc'}; encoding=dict{}; "
                                              "in_memory=True; data=['ndarray']; values=ndarray[<i8(3, "
                                              '4)][[0, 1, 2, 3], [4, 5, 6, 7], [8, 9, 10, 11]]; io=[]}}; '
                                              'children /b/inner2/deep=[]} attrs_untouched=True || locks=0 '
                                              "chunk_calls=[('tuple(dict{})', 'dict{}', ['c', 'a']), "
                                              "('tuple(dict{})', 'dict{}', ['c', 'a']), ('tuple(dict{})', "
                                              "'dict{}', ['e']), ('tuple(dict{})', 'dict{}', ['v']), "
                                              "('tuple(dict{})', 'dict{}', ['f']), ('tuple(dict{})', "
                                              "'dict{}', []), ('tuple(dict{})', 'dict{}', ['g'])] || io=[]",
 'to_dataset nested chunks=rows-cols-nope keyword': "{type=Dataset; data_vars=['c']; coords=['a']; "
                                                    "variables=['c', 'a']; sizes=dict{str:'x': int:3}; "
                                                    "attrs=dict{str:'root': bool:True}; encoding=dict{}; "
                                                    "indexes=[]; var c={type=Variable; dims=tuple(str:'x'); "
                                                    "shape=tuple(int:3); dtype=dtype('int8'); "
                                                    "attrs=dict{str:'a': int:1}; encoding=dict{}; "
                                                    "in_memory=True; data=['ndarray']; "
                                                    'values=ndarray[|i1(3,)][1, 2, 3]; io=[]}; var '
                                                    "a={type=Variable; dims=tuple(str:'x'); "
                                                    "shape=tuple(int:3); dtype=dtype('int8'); attrs=dict{}; "
                                                    "encoding=dict{}; in_memory=True; data=['ndarray']; "
                                                    'values=ndarray[|i1(3,)][4, 5, 6]; io=[]}} '
                                                    'attrs_untouched=True || locks=0 '
                                                    "chunk_calls=[('tuple(dict{})', 'dict{}', ['c', 'a'])] "
                                                    '|| io=[]',
 'to_datatree nested chunks=rows-cols-nope keyword': "{type=DataTree; paths=['/', '/d', '/b', '/b/inner', "
                                                     "'/b/inner2', '/b/inner2/deep']; node /={type=Dataset; "
                                                     "data_vars=['c']; coords=['a']; variables=['c', 'a']; "
                                                     "sizes=dict{str:'x': int:3}; attrs=dict{str:'root': "
                                                     'bool:True}; encoding=dict{}; indexes=[]; var '
                                                     "c={type=Variable; dims=tuple(str:'x'); "
                                                     "shape=tuple(int:3); dtype=dtype('int8'); "
                                                     "attrs=dict{str:'a': int:1}; encoding=dict{}; "
                                                     "in_memory=True; data=['ndarray']; "
                                                     'values=ndarray[|i1(3,)][1, 2, 3]; io=[]}; var '
                                                     "a={type=Variable; dims=tuple(str:'x'); "
                                                     "shape=tuple(int:3); dtype=dtype('int8'); attrs=dict{}; "
                                                     "encoding=dict{}; in_memory=True; data=['ndarray']; "
                                                     'values=ndarray[|i1(3,)][4, 5, 6]; io=[]}}; children '
                                                     "/=['d', 'b']; node /d={type=Dataset; data_vars=['e']; "
                                                     "coords=[]; variables=['e']; sizes=dict{str:'x': int:3, "
                                                     "str:'y': int:4}; attrs=dict{str:'level': str:'e'}; "
                                                     'encoding=dict{}; indexes=[]; var e={type=Variable; '
                                                     "dims=tuple(str:'x', str:'y'); shape=tuple(int:3, "
                                                     "int:4); dtype=dtype('int64'); attrs=dict{str:'b': "
                                                     "str:'abc'}; encoding=dict{}; in_memory=True; "
                                                     "data=['ndarray']; values=ndarray[<i8(3, 4)][[0, 1, 2, "
                                                     '3], [4, 5, 6, 7], [8, 9, 10, 11]]; io=[]}}; children '
                                                     '/d=[]; node /b={type=Dataset; data_vars=[]; '
                                                     "coords=['v']; variables=['v']; sizes=dict{str:'z': "
                                                     'int:2}; attrs=dict{}; encoding=dict{}; indexes=[]; var '
                                                     "v={type=Variable; dims=tuple(str:'z'); "
                                                     "shape=tuple(int:2); dtype=dtype('int64'); "
                                                     'attrs=dict{}; encoding=dict{}; in_memory=True; '
                                                     "data=['ndarray']; values=ndarray[<i8(2,)][0, 1]; "
                                                     "io=[]}}; children /b=['inner', 'inner2']; node "
                                                     "/b/inner={type=Dataset; data_vars=['f']; coords=[]; "
                                                     "variables=['f']; sizes=dict{str:'x': int:3, str:'y': "
                                                     "int:4}; attrs=dict{str:'level': str:'f'}; "
                                                     'encoding=dict{}; indexes=[]; var f={type=Variable; '
                                                     "dims=tuple(str:'x', str:'y'); shape=tuple(int:3, "
                                                     "int:4); dtype=dtype('int64'); attrs=dict{str:'b': "
                                                     "str:'abc'}; encoding=dict{}; in_memory=True; "
                                                     "data=['ndarray']; values=ndarray[<i8(3, 4)][[0, 1, 2, "
                                                     '3], [4, 5, 6, 7], [8, 9, 10, 11]]; io=[]}}; children '
                                                     '/b/inner=[]; node /b/inner2={type=Dataset; '
                                                     'data_vars=[]; coords=[]; variables=[]; sizes=dict{}; '
                                                     "attrs=dict{str:'n': int:2}; encoding=dict{}; "
                                                     "indexes=[]}; children /b/inner2=['deep']; node "
                                                     "/b/inner2/deep={type=Dataset; data_vars=['g']; "
                                                     "coords=[]; variables=['g']; sizes=dict{str:'x': int:3, "
                                                     "str:'y': int:4}; attrs=dict{str:'level': str:'g'}; "
                                                     'encoding=dict{}; indexes=[]; var g={type=Variable; '
                                                     "dims=tuple(str:'x', str:'y'); shape=tuple(int:3, "
                                                     "int:4); dtype=dtype('int64'); attrs=dict{str:'b': "
                                                     "str:'abc'}; encoding=dict{}; in_memory=True; "
                                                     "data=['ndarray']; values=ndarray[<i8(3, 4)][[0, 1, 2, "
                                                     '3], [4, 5, 6, 7], [8, 9, 10, 11]]; io=[]}}; children '
                                                     '/b/inner2/deep=[]} attrs_untouched=True || locks=0 '
                                                     "chunk_calls=[('tuple(dict{})', 'dict{}', ['c', 'a']), "
                                                     "('tuple(dict{})', 'dict{}', ['c', 'a']), "
                                                     "('tuple(dict{})', 'dict{}', ['e']), ('tuple(dict{})', "
                                                     "'dict{}', ['v']), ('tuple(dict{})', 'dict{}', ['f']), "
                                                     "('tuple(dict{})', 'dict{}', []), ('tuple(dict{})', "
                                                     "'dict{}', ['g'])] || io=[]",
 'to_dataset nested chunks=nope keyword': "{type=Dataset; data_vars=['c']; coords=['a']; variables=['c', "
                                          "'a']; sizes=dict{str:'x': int:3}; attrs=dict{str:'root': "
                                          'bool:True}; encoding=dict{}; indexes=[]; var c={type=Variable; '
                                          "dims=tuple(str:'x'); shape=tuple(int:3); dtype=dtype('int8'); "
                                          "attrs=dict{str:'a': int:1}; encoding=dict{}; in_memory=True; "
                                          "data=['ndarray']; values=ndarray[|i1(3,)][1, 2, 3]; io=[]}; var "
                                          "a={type=Variable; dims=tuple(str:'x'); shape=tuple(int:3); "
                                          "dtype=dtype('int8'); attrs=dict{}; encoding=dict{}; "
                                          "in_memory=True; data=['ndarray']; values=ndarray[|i1(3,)][4, 5, "
                                          '6]; io=[]}} attrs_untouched=True || locks=0 '
                                          "chunk_calls=[('tuple(dict{})', 'dict{}', ['c', 'a'])] || io=[]",
 'to_datatree nested chunks=nope keyword': "{type=DataTree; paths=['/', '/d', '/b', '/b/inner', '/b/inner2', "
                                           "'/b/inner2/deep']; node /={type=Dataset; data_vars=['c']; "
                                           "coords=['a']; variables=['c', 'a']; sizes=dict{str:'x': int:3}; "
                                           "attrs=dict{str:'root': bool:True}; encoding=dict{}; indexes=[]; "
                                           "var c={type=Variable; dims=tuple(str:'x'); shape=tuple(int:3); "
                                           "dtype=dtype('int8'); attrs=dict{str:'a': int:1}; "
                                           "encoding=dict{}; in_memory=True; data=['ndarray']; "
                                           'values=ndarray[|i1(3,)][1, 2, 3]; io=[]}; var a={type=Variable; '
                                           "dims=tuple(str:'x'); shape=tuple(int:3); dtype=dtype('int8'); "
                                           "attrs=dict{}; encoding=dict{}; in_memory=True; data=['ndarray']; "
                                           "values=ndarray[|i1(3,)][4, 5, 6]; io=[]}}; children /=['d', "
                                           "'b']; node /d={type=Dataset; data_vars=['e']; coords=[]; "
                                           "variables=['e']; sizes=dict{str:'x': int:3, str:'y': int:4}; "
                                           "attrs=dict{str:'level': str:'e'}; encoding=dict{}; indexes=[]; "
                                           "var e={type=Variable; dims=tuple(str:'x', str:'y'); "
                                           "shape=tuple(int:3, int:4); dtype=dtype('int64'); "
                                           "attrs=dict{str:'b': str:'abc'}; encoding=dict{}; in_memory=True; "
                                           "data=['ndarray']; values=ndarray[<i8(3, 4)][[0, 1, 2, 3], [4, 5, "
                                           '6, 7], [8, 9, 10, 11]]; io=[]}}; children /d=[]; node '
                                           "/b={type=Dataset; data_vars=[]; coords=['v']; variables=['v']; "
                                           "sizes=dict{str:'z': int:2}; attrs=dict{}; encoding=dict{}; "
                                           "indexes=[]; var v={type=Variable; dims=tuple(str:'z'); "
                                           "shape=tuple(int:2); dtype=dtype('int64'); attrs=dict{}; "
                                           "encoding=dict{}; in_memory=True; data=['ndarray']; "
                                           "values=ndarray[<i8(2,)][0, 1]; io=[]}}; children /b=['inner', "
                                           "'inner2']; node /b/inner={type=Dataset; data_vars=['f']; "
                                           "coords=[]; variables=['f']; sizes=dict{str:'x': int:3, str:'y': "
                                           "int:4}; attrs=dict{str:'level': str:'f'}; encoding=dict{}; "
                                           "indexes=[]; var f={type=Variable; dims=tuple(str:'x', str:'y'); "
                                           "shape=tuple(int:3, int:4); dtype=dtype('int64'); "
                                           "attrs=dict{str:'b': str:'abc'}; encoding=dict{}; in_memory=True; "
                                           "data=['ndarray']; values=ndarray[<i8(3, 4)][[0, 1, 2, 3], [4, 5, "
                                           '6, 7], [8, 9, 10, 11]]; io=[]}}; children /b/inner=[]; node '
                                           '/b/inner2={type=Dataset; data_vars=[]; coords=[]; variables=[]; '
                                           "sizes=dict{}; attrs=dict{str:'n': int:2}; encoding=dict{}; "
                                           "indexes=[]}; children /b/inner2=['deep']; node "
                                           "/b/inner2/deep={type=Dataset; data_vars=['g']; coords=[]; "
                                           "variables=['g']; sizes=dict{str:'x': int:3, str:'y': int:4}; "
                                           "attrs=dict{str:'level': str:'g'}; encoding=dict{}; indexes=[]; "
                                           "var g={type=Variable; dims=tuple(str:'x', str:'y'); "
                                           "shape=tuple(int:3, int:4); dtype=dtype('int64'); "
                                           "attrs=dict{str:'b': str:'abc'}; encoding=dict{}; in_memory=True; "
                                           "data=['ndarray']; values=ndarray[<i8(3, 4)][[0, 1, 2, 3], [4, 5, "
                                           '6, 7], [8, 9, 10, 11]]; io=[]}}; children /b/inner2/deep=[]} '
                                           "attrs_untouched=True || locks=0 chunk_calls=[('tuple(dict{})', "
                                           "'dict{}', ['c', 'a']), ('tuple(dict{})', 'dict{}', ['c', 'a']), "
                                           "('tuple(dict{})', 'dict{}', ['e']), ('tuple(dict{})', 'dict{}', "
                                           "['v']), ('tuple(dict{})', 'dict{}', ['f']), ('tuple(dict{})', "
                                           "'dict{}', []), ('tuple(dict{})', 'dict{}', ['g'])] || io=[]",
 'to_dataset nested chunks=readonly keyword': "{type=Dataset; data_vars=['c']; coords=['a']; variables=['c', "
                                              "'a']; sizes=dict{str:'x': int:3}; attrs=dict{str:'root': "
                                              'bool:True}; encoding=dict{}; indexes=[]; var '
                                              "c={type=Variable; dims=tuple(str:'x'); shape=tuple(int:3); "
                                              "dtype=dtype('int8'); attrs=dict{str:'a': int:1}; "
                                              "encoding=dict{}; in_memory=True; data=['ndarray']; "
                                              'values=ndarray[|i1(3,)][1, 2, 3]; io=[]}; var '
                                              "a={type=Variable; dims=tuple(str:'x'); shape=tuple(int:3); "
                                              "dtype=dtype('int8'); attrs=dict{}; encoding=dict{}; "
                                              "in_memory=True; data=['ndarray']; values=ndarray[|i1(3,)][4, "
                                              '5, 6]; io=[]}} attrs_untouched=True || locks=0 '
                                              'chunk_calls=[("tuple(dict{str:\'x\': int:2})", \'dict{}\', '
                                              "['c', 'a'])] || io=[]",
 'to_datatree nested chunks=readonly keyword': "{type=DataTree; paths=['/', '/d', '/b', '/b/inner', "
                                               "'/b/inner2', '/b/inner2/deep']; node /={type=Dataset; "
                                               "data_vars=['c']; coords=['a']; variables=['c', 'a']; "
                                               "sizes=dict{str:'x': int:3}; attrs=dict{str:'root': "
                                               'bool:True}; encoding=dict{}; indexes=[]; var '
                                               "c={type=Variable; dims=tuple(str:'x'); shape=tuple(int:3); "
                                               "dtype=dtype('int8'); attrs=dict{str:'a': int:1}; "
                                               "encoding=dict{}; in_memory=True; data=['ndarray']; "
                                               'values=ndarray[|i1(3,)][1, 2, 3]; io=[]}; var '
                                               "a={type=Variable; dims=tuple(str:'x'); shape=tuple(int:3); "
                                               "dtype=dtype('int8'); attrs=dict{}; encoding=dict{}; "
                                               "in_memory=True; data=['ndarray']; values=ndarray[|i1(3,)][4, "
                                               "5, 6]; io=[]}}; children /=['d', 'b']; node "
                                               "/d={type=Dataset; data_vars=['e']; coords=[]; "
                                               "variables=['e']; sizes=dict{str:'x': int:3, str:'y': int:4}; "
                                               "attrs=dict{str:'level': str:'e'}; encoding=dict{}; "
                                               "indexes=[]; var e={type=Variable; dims=tuple(str:'x', "
                                               "str:'y'); shape=tuple(int:3, int:4); dtype=dtype('int64'); "
                                               "attrs=dict{str:'b': str:'abc'}; encoding=dict{}; "
                                               "in_memory=True; data=['ndarray']; values=ndarray[<i8(3, "
                                               '4)][[0, 1, 2, 3], [4, 5, 6, 7], [8, 9, 10, 11]]; io=[]}}; '
                                               'children /d=[]; node /b={type=Dataset; data_vars=[]; '
                                               "coords=['v']; variables=['v']; sizes=dict{str:'z': int:2}; "
                                               'attrs=dict{}; encoding=dict{}; indexes=[]; var '
                                               "v={type=Variable; dims=tuple(str:'z'); shape=tuple(int:2); "
                                               "dtype=dtype('int64'); attrs=dict{}; encoding=dict{}; "
                                               "in_memory=True; data=['ndarray']; values=ndarray[<i8(2,)][0, "
                                               "1]; io=[]}}; children /b=['inner', 'inner2']; node "
                                               "/b/inner={type=Dataset; data_vars=['f']; coords=[]; "
                                               "variables=['f']; sizes=dict{str:'x': int:3, str:'y': int:4}; "
                                               "attrs=dict{str:'level': str:'f'}; encoding=dict{}; "
                                               "indexes=[]; var f={type=Variable; dims=tuple(str:'x', "
                                               "str:'y'); shape=tuple(int:3, int:4); dtype=dtype('int64'); "
                                               "attrs=dict{str:'b': str:'abc'}; encoding=dict{}; "
                                               "in_memory=True; data=['ndarray']; values=ndarray[<i8(3, "
                                               '4)][[0, 1, 2, 3], [4, 5, 6, 7], [8, 9, 10, 11]]; io=[]}}; '
                                               'children /b/inner=[]; node /b/inner2={type=Dataset; '
                                               'data_vars=[]; coords=[]; variables=[]; sizes=dict{}; '
                                               "attrs=dict{str:'n': int:2}; encoding=dict{}; indexes=[]}; "
                                               "children /b/inner2=['deep']; node "
                                               "/b/inner2/deep={type=Dataset; data_vars=['g']; coords=[]; "
                                               "variables=['g']; sizes=dict{str:'x': int:3, str:'y': int:4}; "
                                               "attrs=dict{str:'level': str:'g'}; encoding=dict{}; "
                                               "indexes=[]; var g={type=Variable; dims=tuple(str:'x', "
                                               "str:'y'); shape=tuple(int:3, int:4); dtype=dtype('int64'); "
                                               "attrs=dict{str:'b': str:'abc'}; encoding=dict{}; "
                                               "in_memory=True; data=['ndarray']; values=ndarray[<i8(3, "
                                               '4)][[0, 1, 2, 3], [4, 5, 6, 7], [8, 9, 10, 11]]; io=[]}}; '
                                               'children /b/inner2/deep=[]} attrs_untouched=True || locks=0 '
                                               'chunk_calls=[("tuple(dict{str:\'x\': int:2})", \'dict{}\', '
                                               '[\'c\', \'a\']), ("tuple(dict{str:\'x\': int:2})", '
                                               '\'dict{}\', [\'c\', \'a\']), ("tuple(dict{str:\'x\': '
                                               'int:2})", \'dict{}\', [\'e\']), (\'tuple(dict{})\', '
                                               '\'dict{}\', [\'v\']), ("tuple(dict{str:\'x\': int:2})", '
                                               "'dict{}', ['f']), ('tuple(dict{})', 'dict{}', []), "
                                               '("tuple(dict{str:\'x\': int:2})", \'dict{}\', [\'g\'])] || '
                                               'io=[]',
 'to_dataset nested chunks=-1 keyword': "raise builtins.AttributeError: 'int' object has no attribute "
                                        "'items' || locks=0 chunk_calls=[] || io=[]",
 'to_datatree nested chunks=-1 keyword': "raise builtins.AttributeError: 'int' object has no attribute "
                                         "'items' || locks=0 chunk_calls=[] || io=[]",
 'to_dataset nested chunks=-1 positional': "raise builtins.AttributeError: 'int' object has no attribute "
                                           "'items' || locks=0 chunk_calls=[] || io=[]",
 'to_datatree nested chunks=-1 positional': "raise builtins.AttributeError: 'int' object has no attribute "
                                            "'items' || locks=0 chunk_calls=[] || io=[]",
 "to_dataset nested chunks='auto' keyword": "raise builtins.AttributeError: 'str' object has no attribute "
                                            "'items' || locks=0 chunk_calls=[] || io=[]",
 "to_datatree nested chunks='auto' keyword": "raise builtins.AttributeError: 'str' object has no attribute "
                                             "'items' || locks=0 chunk_calls=[] || io=[]",
 'to_dataset nested chunks=0 keyword': "raise builtins.AttributeError: 'int' object has no attribute 'items' "
                                       '|| locks=0 chunk_calls=[] || io=[]',
 'to_datatree nested chunks=0 keyword': "raise builtins.AttributeError: 'int' object has no attribute "
                                        "'items' || locks=0 chunk_calls=[] || io=[]",
 'to_dataset nested chunks=list keyword': "raise builtins.AttributeError: 'list' object has no attribute "
                                          "'items' || locks=0 chunk_calls=[] || io=[]",
 'to_datatree nested chunks=list keyword': "raise builtins.AttributeError: 'list' object has no attribute "
                                           "'items' || locks=0 chunk_calls=[] || io=[]",
 'to_dataset nested default': "{type=Dataset; data_vars=['c']; coords=['a']; variables=['c', 'a']; "
                              "sizes=dict{str:'x': int:3}; attrs=dict{str:'root': bool:True}; "
                              "encoding=dict{}; indexes=[]; var c={type=Variable; dims=tuple(str:'x'); "
                              "shape=tuple(int:3); dtype=dtype('int8'); attrs=dict{str:'a': int:1}; "
                              "encoding=dict{}; in_memory=True; data=['ndarray']; values=ndarray[|i1(3,)][1, "
                              "2, 3]; io=[]}; var a={type=Variable; dims=tuple(str:'x'); shape=tuple(int:3); "
                              "dtype=dtype('int8'); attrs=dict{}; encoding=dict{}; in_memory=True; "
                              "data=['ndarray']; values=ndarray[|i1(3,)][4, 5, 6]; io=[]}} "
                              'attrs_untouched=True || locks=0 chunk_calls=[] || io=[]',
 'to_datatree nested default': "{type=DataTree; paths=['/', '/d', '/b', '/b/inner', '/b/inner2', "
                               "'/b/inner2/deep']; node /={type=Dataset; data_vars=['c']; coords=['a']; "
                               "variables=['c', 'a']; sizes=dict{str:'x': int:3}; attrs=dict{str:'root': "
                               'bool:True}; encoding=dict{}; indexes=[]; var c={type=Variable; '
                               "dims=tuple(str:'x'); shape=tuple(int:3); dtype=dtype('int8'); "
                               "attrs=dict{str:'a': int:1}; encoding=dict{}; in_memory=True; "
                               "data=['ndarray']; values=ndarray[|i1(3,)][1, 2, 3]; io=[]}; var "
                               "a={type=Variable; dims=tuple(str:'x'); shape=tuple(int:3); "
                               "dtype=dtype('int8'); attrs=dict{}; encoding=dict{}; in_memory=True; "
                               "data=['ndarray']; values=ndarray[|i1(3,)][4, 5, 6]; io=[]}}; children "
                               "/=['d', 'b']; node /d={type=Dataset; data_vars=['e']; coords=[]; "
                               "variables=['e']; sizes=dict{str:'x': int:3, str:'y': int:4}; "
                               "attrs=dict{str:'level': str:'e'}; encoding=dict{}; indexes=[]; var "
                               "e={type=Variable; dims=tuple(str:'x', str:'y'); shape=tuple(int:3, int:4); "
                               "dtype=dtype('int64'); attrs=dict{str:'b': str:'abc'}; encoding=dict{}; "
                               "in_memory=True; data=['ndarray']; values=ndarray[<i8(3, 4)][[0, 1, 2, 3], "
                               '[4, 5, 6, 7], [8, 9, 10, 11]]; io=[]}}; children /d=[]; node '
                               "/b={type=Dataset; data_vars=[]; coords=['v']; variables=['v']; "
                               "sizes=dict{str:'z': int:2}; attrs=dict{}; encoding=dict{}; indexes=[]; var "
                               "v={type=Variable; dims=tuple(str:'z'); shape=tuple(int:2); "
                               "dtype=dtype('int64'); attrs=dict{}; encoding=dict{}; in_memory=True; "
                               "data=['ndarray']; values=ndarray[<i8(2,)][0, 1]; io=[]}}; children "
                               "/b=['inner', 'inner2']; node /b/inner={type=Dataset; data_vars=['f']; "
                               "coords=[]; variables=['f']; sizes=dict{str:'x': int:3, str:'y': int:4}; "
                               "attrs=dict{str:'level': str:'f'}; encoding=dict{}; indexes=[]; var "
                               "f={type=Variable; dims=tuple(str:'x', str:'y'); shape=tuple(int:3, int:4); "
                               "dtype=dtype('int64'); attrs=dict{str:'b': str:'abc'}; encoding=dict{}; "
                               "in_memory=True; data=['ndarray']; values=ndarray[<i8(3, 4)][[0, 1, 2, 3], "
                               '[4, 5, 6, 7], [8, 9, 10, 11]]; io=[]}}; children /b/inner=[]; node '
                               '/b/inner2={type=Dataset; data_vars=[]; coords=[]; variables=[]; '
                               "sizes=dict{}; attrs=dict{str:'n': int:2}; encoding=dict{}; indexes=[]}; "
                               "children /b/inner2=['deep']; node /b/inner2/deep={type=Dataset; "
                               "data_vars=['g']; coords=[]; variables=['g']; sizes=dict{str:'x': int:3, "
                               "str:'y': int:4}; attrs=dict{str:'level': str:'g'}; encoding=dict{}; "
                               "indexes=[]; var g={type=Variable; dims=tuple(str:'x', str:'y'); "
                               "shape=tuple(int:3, int:4); dtype=dtype('int64'); attrs=dict{str:'b': "
                               "str:'abc'}; encoding=dict{}; in_memory=True; data=['ndarray']; "
                               'values=ndarray[<i8(3, 4)][[0, 1, 2, 3], [4, 5, 6, 7], [8, 9, 10, 11]]; '
                               'io=[]}}; children /b/inner2/deep=[]} attrs_untouched=True || locks=0 '
                               'chunk_calls=[] || io=[]',
 'to_dataset nested-lazy chunks=None keyword': "{type=Dataset; data_vars=['overview']; coords=[]; "
                                               "variables=['overview']; sizes=dict{str:'rows': int:4, "
                                               "str:'cols': int:6}; attrs=dict{str:'mission': str:'ALOS2'}; "
                                               'encoding=dict{}; indexes=[]; var overview={type=Variable; '
                                               "dims=tuple(str:'rows', str:'cols'); shape=tuple(int:4, "
                                               "int:6); dtype=dtype('uint16'); attrs=dict{}; "
                                               "encoding=dict{str:'preferred_chunksizes': dict{str:'rows': "
                                               "int:1, str:'cols': int:6}}; in_memory=False; "
                                               "data=['LazilyIndexedArray', 'LazilyIndexedWrapper', "
                                               "'Array']; wrapper=('tuple(int:4, int:6)', "
                                               '"dtype(\'uint16\')", \'SerializableLock\', \'Array\'); '
                                               'values=ndarray[<u2(4, 6)][[0, 3, 6, 9, 12, 15], [18, 21, 24, '
                                               '27, 30, 33], [36, 39, 42, 45, 48, 51], [54, 57, 60, 63, 66, '
                                               "69]]; io=[('open', ('overview',), {'mode': 'rb'}), 'enter', "
                                               "('seek', (16,), {}), ('read', (12,), {}), ('seek', (44,), "
                                               "{}), ('read', (12,), {}), ('seek', (72,), {}), ('read', "
                                               "(12,), {}), ('seek', (100,), {}), ('read', (12,), {}), "
                                               "'exit']}} attrs_untouched=True || locks=1 chunk_calls=[] || "
                                               'io=[]',
 'to_datatree nested-lazy chunks=None keyword': "{type=DataTree; paths=['/', '/imagery', '/imagery/HH', "
                                                "'/imagery/HV']; node /={type=Dataset; "
                                                "data_vars=['overview']; coords=[]; variables=['overview']; "
                                                "sizes=dict{str:'rows': int:4, str:'cols': int:6}; "
                                                "attrs=dict{str:'mission': str:'ALOS2'}; encoding=dict{}; "
                                                'indexes=[]; var overview={type=Variable; '
                                                "dims=tuple(str:'rows', str:'cols'); shape=tuple(int:4, "
                                                "int:6); dtype=dtype('uint16'); attrs=dict{}; "
                                                "encoding=dict{str:'preferred_chunksizes': dict{str:'rows': "
                                                "int:1, str:'cols': int:6}}; in_memory=False; "
                                                "data=['LazilyIndexedArray', 'LazilyIndexedWrapper', "
                                                "'Array']; wrapper=('tuple(int:4, int:6)', "
                                                '"dtype(\'uint16\')", \'SerializableLock\', \'Array\'); '
                                                'values=ndarray[<u2(4, 6)][[0, 3, 6, 9, 12, 15], [18, 21, '
                                                '24, 27, 30, 33], [36, 39, 42, 45, 48, 51], [54, 57, 60, 63, '
                                                "66, 69]]; io=[('open', ('overview',), {'mode': 'rb'}), "
                                                "'enter', ('seek', (16,), {}), ('read', (12,), {}), ('seek', "
                                                "(44,), {}), ('read', (12,), {}), ('seek', (72,), {}), "
                                                "('read', (12,), {}), ('seek', (100,), {}), ('read', (12,), "
                                                "{}), 'exit']}}; children /=['imagery']; node "
                                                '/imagery={type=Dataset; data_vars=[]; coords=[]; '
                                                'variables=[]; sizes=dict{}; attrs=dict{}; encoding=dict{}; '
                                                "indexes=[]}; children /imagery=['HH', 'HV']; node "
                                                "/imagery/HH={type=Dataset; data_vars=['data']; coords=[]; "
                                                "variables=['data']; sizes=dict{str:'rows': int:4, "
                                                "str:'cols': int:6}; attrs=dict{str:'polarization': "
                                                "str:'HH'}; encoding=dict{}; indexes=[]; var "
                                                "data={type=Variable; dims=tuple(str:'rows', str:'cols'); "
                                                "shape=tuple(int:4, int:6); dtype=dtype('uint16'); "
                                                "attrs=dict{}; encoding=dict{str:'preferred_chunksizes': "
                                                "dict{str:'rows': int:2, str:'cols': int:6}}; "
                                                "in_memory=False; data=['LazilyIndexedArray', "
                                                "'LazilyIndexedWrapper', 'Array']; wrapper=('tuple(int:4, "
                                                'int:6)\', "dtype(\'uint16\')", \'SerializableLock\', '
                                                "'Array'); values=ndarray[<u2(4, 6)][[0, 3, 6, 9, 12, 15], "
                                                '[18, 21, 24, 27, 30, 33], [36, 39, 42, 45, 48, 51], [54, '
                                                "57, 60, 63, 66, 69]]; io=[('open', ('hh',), {'mode': "
                                                "'rb'}), 'enter', ('seek', (16,), {}), ('read', (40,), {}), "
                                                "('seek', (72,), {}), ('read', (40,), {}), 'exit']}}; "
                                                'children /imagery/HH=[]; node /imagery/HV={type=Dataset; '
                                                "data_vars=['data']; coords=[]; variables=['data']; "
                                                "sizes=dict{str:'rows': int:4, str:'cols': int:6}; "
                                                "attrs=dict{str:'polarization': str:'HV'}; encoding=dict{}; "
                                                "indexes=[]; var data={type=Variable; dims=tuple(str:'rows', "
                                                "str:'cols'); shape=tuple(int:4, int:6); "
                                                "dtype=dtype('uint16'); attrs=dict{}; "
                                                "encoding=dict{str:'preferred_chunksizes': dict{str:'rows': "
                                                "int:4, str:'cols': int:6}}; in_memory=False; "
                                                "data=['LazilyIndexedArray', 'LazilyIndexedWrapper', "
                                                "'Array']; wrapper=('tuple(int:4, int:6)', "
                                                '"dtype(\'uint16\')", \'SerializableLock\', \'Array\'); '
                                                'values=ndarray[<u2(4, 6)][[0, 3, 6, 9, 12, 15], [18, 21, '
                                                '24, 27, 30, 33], [36, 39, 42, 45, 48, 51], [54, 57, 60, 63, '
                                                "66, 69]]; io=[('open', ('hv',), {'mode': 'rb'}), 'enter', "
                                                "('seek', (16,), {}), ('read', (96,), {}), 'exit']}}; "
                                                'children /imagery/HV=[]} attrs_untouched=True || locks=4 '
                                                'chunk_calls=[] || io=[]',
 'to_dataset nested-lazy chunks=None positional': "{type=Dataset; data_vars=['overview']; coords=[]; "
                                                  "variables=['overview']; sizes=dict{str:'rows': int:4, "
                                                  "str:'cols': int:6}; attrs=dict{str:'mission': "
                                                  "str:'ALOS2'}; encoding=dict{}; indexes=[]; var "
                                                  "overview={type=Variable; dims=tuple(str:'rows', "
                                                  "str:'cols'); shape=tuple(int:4, int:6); "
                                                  "dtype=dtype('uint16'); attrs=dict{}; "
                                                  "encoding=dict{str:'preferred_chunksizes': "
                                                  "dict{str:'rows': int:1, str:'cols': int:6}}; "
                                                  "in_memory=False; data=['LazilyIndexedArray', "
                                                  "'LazilyIndexedWrapper', 'Array']; wrapper=('tuple(int:4, "
                                                  'int:6)\', "dtype(\'uint16\')", \'SerializableLock\', '
                                                  "'Array'); values=ndarray[<u2(4, 6)][[0, 3, 6, 9, 12, 15], "
                                                  '[18, 21, 24, 27, 30, 33], [36, 39, 42, 45, 48, 51], [54, '
                                                  "57, 60, 63, 66, 69]]; io=[('open', ('overview',), "
                                                  "{'mode': 'rb'}), 'enter', ('seek', (16,), {}), ('read', "
                                                  "(12,), {}), ('seek', (44,), {}), ('read', (12,), {}), "
                                                  "('seek', (72,), {}), ('read', (12,), {}), ('seek', "
                                                  "(100,), {}), ('read', (12,), {}), 'exit']}} "
                                                  'attrs_untouched=True || locks=1 chunk_calls=[] || io=[]',
 'to_datatree nested-lazy chunks=None positional': "{type=DataTree; paths=['/', '/imagery', '/imagery/HH', "
                                                   "'/imagery/HV']; node /={type=Dataset; "
                                                   "data_vars=['overview']; coords=[]; "
                                                   "variables=['overview']; sizes=dict{str:'rows': int:4, "
                                                   "str:'cols': int:6}; attrs=dict{str:'mission': "
                                                   "str:'ALOS2'}; encoding=dict{}; indexes=[]; var "
                                                   "overview={type=Variable; dims=tuple(str:'rows', "
                                                   "str:'cols'); shape=tuple(int:4, int:6); "
                                                   "dtype=dtype('uint16'); attrs=dict{}; "
                                                   "encoding=dict{str:'preferred_chunksizes': "
                                                   "dict{str:'rows': int:1, str:'cols': int:6}}; "
                                                   "in_memory=False; data=['LazilyIndexedArray', "
                                                   "'LazilyIndexedWrapper', 'Array']; wrapper=('tuple(int:4, "
                                                   'int:6)\', "dtype(\'uint16\')", \'SerializableLock\', '
                                                   "'Array'); values=ndarray[<u2(4, 6)][[0, 3, 6, 9, 12, "
                                                   '15], [18, 21, 24, 27, 30, 33], [36, 39, 42, 45, 48, 51], '
                                                   "[54, 57, 60, 63, 66, 69]]; io=[('open', ('overview',), "
                                                   "{'mode': 'rb'}), 'enter', ('seek', (16,), {}), ('read', "
                                                   "(12,), {}), ('seek', (44,), {}), ('read', (12,), {}), "
                                                   "('seek', (72,), {}), ('read', (12,), {}), ('seek', "
                                                   "(100,), {}), ('read', (12,), {}), 'exit']}}; children "
                                                   "/=['imagery']; node /imagery={type=Dataset; "
                                                   'data_vars=[]; coords=[]; variables=[]; sizes=dict{}; '
                                                   'attrs=dict{}; encoding=dict{}; indexes=[]}; children '
                                                   "/imagery=['HH', 'HV']; node /imagery/HH={type=Dataset; "
                                                   "data_vars=['data']; coords=[]; variables=['data']; "
                                                   "sizes=dict{str:'rows': int:4, str:'cols': int:6}; "
                                                   "attrs=dict{str:'polarization': str:'HH'}; "
                                                   'encoding=dict{}; indexes=[]; var data={type=Variable; '
                                                   "dims=tuple(str:'rows', str:'cols'); shape=tuple(int:4, "
                                                   "int:6); dtype=dtype('uint16'); attrs=dict{}; "
                                                   "encoding=dict{str:'preferred_chunksizes': "
                                                   "dict{str:'rows': int:2, str:'cols': int:6}}; "
                                                   "in_memory=False; data=['LazilyIndexedArray', "
                                                   "'LazilyIndexedWrapper', 'Array']; wrapper=('tuple(int:4, "
                                                   'int:6)\', "dtype(\'uint16\')", \'SerializableLock\', '
                                                   "'Array'); values=ndarray[<u2(4, 6)][[0, 3, 6, 9, 12, "
                                                   '15], [18, 21, 24, 27, 30, 33], [36, 39, 42, 45, 48, 51], '
                                                   "[54, 57, 60, 63, 66, 69]]; io=[('open', ('hh',), "
                                                   "{'mode': 'rb'}), 'enter', ('seek', (16,), {}), ('read', "
                                                   "(40,), {}), ('seek', (72,), {}), ('read', (40,), {}), "
                                                   "'exit']}}; children /imagery/HH=[]; node "
                                                   "/imagery/HV={type=Dataset; data_vars=['data']; "
                                                   "coords=[]; variables=['data']; sizes=dict{str:'rows': "
                                                   "int:4, str:'cols': int:6}; "
                                                   "attrs=dict{str:'polarization': str:'HV'}; "
                                                   'encoding=dict{}; indexes=[]; var data={type=Variable; '
                                                   "dims=tuple(str:'rows', str:'cols'); shape=tuple(int:4, "
                                                   "int:6); dtype=dtype('uint16'); attrs=dict{}; "
                                                   "encoding=dict{str:'preferred_chunksizes': "
                                                   "dict{str:'rows': int:4, str:'cols': int:6}}; "
                                                   "in_memory=False; data=['LazilyIndexedArray', "
                                                   "'LazilyIndexedWrapper', 'Array']; wrapper=('tuple(int:4, "
                                                   'int:6)\', "dtype(\'uint16\')", \'SerializableLock\', '
                                                   "'Array'); values=ndarray[<u2(4, 6)][[0, 3, 6, 9, 12, "
                                                   '15], [18, 21, 24, 27, 30, 33], [36, 39, 42, 45, 48, 51], '
                                                   "[54, 57, 60, 63, 66, 69]]; io=[('open', ('hv',), "
                                                   "{'mode': 'rb'}), 'enter', ('seek', (16,), {}), ('read', "
                                                   "(96,), {}), 'exit']}}; children /imagery/HV=[]} "
                                                   'attrs_untouched=True || locks=4 chunk_calls=[] || io=[]',
 'to_dataset nested-lazy chunks=x1y2 keyword': "{type=Dataset; data_vars=['overview']; coords=[]; "
                                               "variables=['overview']; sizes=dict{str:'rows': int:4, "
                                               "str:'cols': int:6}; attrs=dict{str:'mission': str:'ALOS2'}; "
                                               'encoding=dict{}; indexes=[]; var overview={type=Variable; '
                                               "dims=tuple(str:'rows', str:'cols'); shape=tuple(int:4, "
                                               "int:6); dtype=dtype('uint16'); attrs=dict{}; "
                                               "encoding=dict{str:'preferred_chunksizes': dict{str:'rows': "
                                               "int:1, str:'cols': int:6}}; in_memory=False; "
                                               "data=['LazilyIndexedArray', 'LazilyIndexedWrapper', "
                                               "'Array']; wrapper=('tuple(int:4, int:6)', "
                                               '"dtype(\'uint16\')", \'SerializableLock\', \'Array\'); '
                                               'values=ndarray[<u2(4, 6)][[0, 3, 6, 9, 12, 15], [18, 21, 24, '
                                               '27, 30, 33], [36, 39, 42, 45, 48, 51], [54, 57, 60, 63, 66, '
                                               "69]]; io=[('open', ('overview',), {'mode': 'rb'}), 'enter', "
                                               "('seek', (16,), {}), ('read', (12,), {}), ('seek', (44,), "
                                               "{}), ('read', (12,), {}), ('seek', (72,), {}), ('read', "
                                               "(12,), {}), ('seek', (100,), {}), ('read', (12,), {}), "
                                               "'exit']}} attrs_untouched=True || locks=1 "
                                               "chunk_calls=[('tuple(dict{})', 'dict{}', ['overview'])] || "
                                               'io=[]',
 'to_datatree nested-lazy chunks=x1y2 keyword': "{type=DataTree; paths=['/', '/imagery', '/imagery/HH', "
                                                "'/imagery/HV']; node /={type=Dataset; "
                                                "data_vars=['overview']; coords=[]; variables=['overview']; "
                                                "sizes=dict{str:'rows': int:4, str:'cols': int:6}; "
                                                "attrs=dict{str:'mission': str:'ALOS2'}; encoding=dict{}; "
                                                'indexes=[]; var overview={type=Variable; '
                                                "dims=tuple(str:'rows', str:'cols'); shape=tuple(int:4, "
                                                "int:6); dtype=dtype('uint16'); attrs=dict{}; "
                                                "encoding=dict{str:'preferred_chunksizes': dict{str:'rows': "
                                                "int:1, str:'cols': int:6}}; in_memory=False; "
                                                "data=['LazilyIndexedArray', 'LazilyIndexedWrapper', "
                                                "'Array']; wrapper=('tuple(int:4, int:6)', "
                                                '"dtype(\'uint16\')", \'SerializableLock\', \'Array\'); '
                                                'values=ndarray[<u2(4, 6)][[0, 3, 6, 9, 12, 15], [18, 21, '
                                                '24, 27, 30, 33], [36, 39, 42, 45, 48, 51], [54, 57, 60, 63, '
                                                "66, 69]]; io=[('open', ('overview',), {'mode': 'rb'}), "
                                                "'enter', ('seek', (16,), {}), ('read', (12,), {}), ('seek', "
                                                "(44,), {}), ('read', (12,), {}), ('seek', (72,), {}), "
                                                "('read', (12,), {}), ('seek', (100,), {}), ('read', (12,), "
                                                "{}), 'exit']}}; children /=['imagery']; node "
                                                '/imagery={type=Dataset; data_vars=[]; coords=[]; '
                                                'variables=[]; sizes=dict{}; attrs=dict{}; encoding=dict{}; '
                                                "indexes=[]}; children /imagery=['HH', 'HV']; node "
                                                "/imagery/HH={type=Dataset; data_vars=['data']; coords=[]; "
                                                "variables=['data']; sizes=dict{str:'rows': int:4, "
                                                "str:'cols': int:6}; attrs=dict{str:'polarization': "
                                                "str:'HH'}; encoding=dict{}; indexes=[]; var "
                                                "data={type=Variable; dims=tuple(str:'rows', str:'cols'); "
                                                "shape=tuple(int:4, int:6); dtype=dtype('uint16'); "
                                                "attrs=dict{}; encoding=dict{str:'preferred_chunksizes': "
                                                "dict{str:'rows': int:2, str:'cols': int:6}}; "
                                                "in_memory=False; data=['LazilyIndexedArray', "
                                                "'LazilyIndexedWrapper', 'Array']; wrapper=('tuple(int:4, "
                                                'int:6)\', "dtype(\'uint16\')", \'SerializableLock\', '
                                                "'Array'); values=ndarray[<u2(4, 6)][[0, 3, 6, 9, 12, 15], "
                                                '[18, 21, 24, 27, 30, 33], [36, 39, 42, 45, 48, 51], [54, '
                                                "57, 60, 63, 66, 69]]; io=[('open', ('hh',), {'mode': "
                                                "'rb'}), 'enter', ('seek', (16,), {}), ('read', (40,), {}), "
                                                "('seek', (72,), {}), ('read', (40,), {}), 'exit']}}; "
                                                'children /imagery/HH=[]; node /imagery/HV={type=Dataset; '
                                                "data_vars=['data']; coords=[]; variables=['data']; "
                                                "sizes=dict{str:'rows': int:4, str:'cols': int:6}; "
                                                "attrs=dict{str:'polarization': str:'HV'}; encoding=dict{}; "
                                                "indexes=[]; var data={type=Variable; dims=tuple(str:'rows', "
                                                "str:'cols'); shape=tuple(int:4, int:6); "
                                                "dtype=dtype('uint16'); attrs=dict{}; "
                                                "encoding=dict{str:'preferred_chunksizes': dict{str:'rows': "
                                                "int:4, str:'cols': int:6}}; in_memory=False; "
                                                "data=['LazilyIndexedArray', 'LazilyIndexedWrapper', "
                                                "'Array']; wrapper=('tuple(int:4, int:6)', "
                                                '"dtype(\'uint16\')", \'SerializableLock\', \'Array\'); '
                                                'values=ndarray[<u2(4, 6)][[0, 3, 6, 9, 12, 15], [18, 21, '
                                                '24, 27, 30, 33], [36, 39, 42, 45, 48, 51], [54, 57, 60, 63, '
                                                "66, 69]]; io=[('open', ('hv',), {'mode': 'rb'}), 'enter', "
                                                "('seek', (16,), {}), ('read', (96,), {}), 'exit']}}; "
                                                'children /imagery/HV=[]} attrs_untouched=True || locks=4 '
                                                "chunk_calls=[('tuple(dict{})', 'dict{}', ['overview']), "
                                                "('tuple(dict{})', 'dict{}', ['overview']), "
                                                "('tuple(dict{})', 'dict{}', []), ('tuple(dict{})', "
                                                "'dict{}', ['data']), ('tuple(dict{})', 'dict{}', ['data'])] "
                                                '|| io=[]',
 'to_dataset nested-lazy chunks=rows keyword': "{type=Dataset; data_vars=['overview']; coords=[]; "
                                               "variables=['overview']; sizes=dict{str:'rows': int:4, "
                                               "str:'cols': int:6}; attrs=dict{str:'mission': str:'ALOS2'}; "
                                               'encoding=dict{}; indexes=[]; var overview={type=Variable; '
                                               "dims=tuple(str:'rows', str:'cols'); shape=tuple(int:4, "
                                               "int:6); dtype=dtype('uint16'); attrs=dict{}; "
                                               "encoding=dict{str:'preferred_chunksizes': dict{str:'rows': "
                                               "int:1, str:'cols': int:6}}; in_memory=False; "
                                               "data=['LazilyIndexedArray', 'LazilyIndexedWrapper', "
                                               "'Array']; wrapper=('tuple(int:4, int:6)', "
                                               '"dtype(\'uint16\')", \'SerializableLock\', \'Array\'); '
                                               'values=ndarray[<u2(4, 6)][[0, 3, 6, 9, 12, 15], [18, 21, 24, '
                                               '27, 30, 33], [36, 39, 42, 45, 48, 51], [54, 57, 60, 63, 66, '
                                               "69]]; io=[('open', ('overview',), {'mode': 'rb'}), 'enter', "
                                               "('seek', (16,), {}), ('read', (12,), {}), ('seek', (44,), "
                                               "{}), ('read', (12,), {}), ('seek', (72,), {}), ('read', "
                                               "(12,), {}), ('seek', (100,), {}), ('read', (12,), {}), "
                                               "'exit']}} attrs_untouched=True || locks=1 "
                                               'chunk_calls=[("tuple(dict{str:\'rows\': int:2})", '
                                               "'dict{}', ['overview'])] || io=[]",
 'to_datatree nested-lazy chunks=rows keyword': "{type=DataTree; paths=['/', '/imagery', '/imagery/HH', "
                                                "'/imagery/HV']; node /={type=Dataset; "
                                                "data_vars=['overview']; coords=[]; variables=['overview']; "
                                                "sizes=dict{str:'rows': int:4, str:'cols': int:6}; "
                                                "attrs=dict{str:'mission': str:'ALOS2'}; encoding=dict{}; "
                                                'indexes=[]; var overview={type=Variable; '
                                                "dims=tuple(str:'rows', str:'cols'); shape=tuple(int:4, "
                                                "int:6); dtype=dtype('uint16'); attrs=dict{}; "
                                                "encoding=dict{str:'preferred_chunksizes': dict{str:'rows': "
                                                "int:1, str:'cols': int:6}}; in_memory=False; "
                                                "data=['LazilyIndexedArray', 'LazilyIndexedWrapper', "
                                                "'Array']; wrapper=('tuple(int:4, int:6)', "
                                                '"dtype(\'uint16\')", \'SerializableLock\', \'Array\'); '
                                                'values=ndarray[<u2(4, 6)][[0, 3, 6, 9, 12, 15], [18, 21, '
                                                '24, 27, 30, 33], [36, 39, 42, 45, 48, 51], [54, 57, 60, 63, '
                                                "66, 69]]; io=[('open', ('overview',), {'mode': 'rb'}), "
                                                "'enter', ('seek', (16,), {}), ('read', (12,), {}), ('seek', "
                                                "(44,), {}), ('read', (12,), {}), ('seek', (72,), {}), "
                                                "('read', (12,), {}), ('seek', (100,), {}), ('read', (12,), "
                                                "{}), 'exit']}}; children /=['imagery']; node "
                                                '/imagery={type=Dataset; data_vars=[]; coords=[]; '
                                                'variables=[]; sizes=dict{}; attrs=dict{}; encoding=dict{}; '
                                                "indexes=[]}; children /imagery=['HH', 'HV']; node "
                                                "/imagery/HH={type=Dataset; data_vars=['data']; coords=[]; "
                                                "variables=['data']; sizes=dict{str:'rows': int:4, "
                                                "str:'cols': int:6}; attrs=dict{str:'polarization': "
                                                "str:'HH'}; encoding=dict{}; indexes=[]; var "
                                                "data={type=Variable; dims=tuple(str:'rows', str:'cols'); "
                                                "shape=tuple(int:4, int:6); dtype=dtype('uint16'); "
                                                "attrs=dict{}; encoding=dict{str:'preferred_chunksizes': "
                                                "dict{str:'rows': int:2, str:'cols': int:6}}; "
                                                "in_memory=False; data=['LazilyIndexedArray', "
                                                "'LazilyIndexedWrapper', 'Array']; wrapper=('tuple(int:4, "
                                                'int:6)\', "dtype(\'uint16\')", \'SerializableLock\', '
                                                "'Array'); values=ndarray[<u2(4, 6)][[0, 3, 6, 9, 12, 15], "
                                                '[18, 21, 24, 27, 30, 33], [36, 39, 42, 45, 48, 51], [54, '
                                                "57, 60, 63, 66, 69]]; io=[('open', ('hh',), {'mode': "
                                                "'rb'}), 'enter', ('seek', (16,), {}), ('read', (40,), {}), "
                                                "('seek', (72,), {}), ('read', (40,), {}), 'exit']}}; "
                                                'children /imagery/HH=[]; node /imagery/HV={type=Dataset; '
                                                "data_vars=['data']; coords=[]; variables=['data']; "
                                                "sizes=dict{str:'rows': int:4, str:'cols': int:6}; "
                                                "attrs=dict{str:'polarization': str:'HV'}; encoding=dict{}; "
                                                "indexes=[]; var data={type=Variable; dims=tuple(str:'rows', "
                                                "str:'cols'); shape=tuple(int:4, int:6); "
                                                "dtype=dtype('uint16'); attrs=dict{}; "
                                                "encoding=dict{str:'preferred_chunksizes': dict{str:'rows': "
                                                "int:4, str:'cols': int:6}}; in_memory=False; "
                                                "data=['LazilyIndexedArray', 'LazilyIndexedWrapper', "
                                                "'Array']; wrapper=('tuple(int:4, int:6)', "
                                                '"dtype(\'uint16\')", \'SerializableLock\', \'Array\'); '
                                                'values=ndarray[<u2(4, 6)][[0, 3, 6, 9, 12, 15], [18, 21, '
                                                '24, 27, 30, 33], [36, 39, 42, 45, 48, 51], [54, 57, 60, 63, '
                                                "66, 69]]; io=[('open', ('hv',), {'mode': 'rb'}), 'enter', "
                                                "('seek', (16,), {}), ('read', (96,), {}), 'exit']}}; "
                                                'children /imagery/HV=[]} attrs_untouched=True || locks=4 '
                                                'chunk_calls=[("tuple(dict{str:\'rows\': int:2})", '
                                                '\'dict{}\', [\'overview\']), ("tuple(dict{str:\'rows\': '
                                                'int:2})", \'dict{}\', [\'overview\']), (\'tuple(dict{})\', '
                                                '\'dict{}\', []), ("tuple(dict{str:\'rows\': int:2})", '
                                                '\'dict{}\', [\'data\']), ("tuple(dict{str:\'rows\': '
                                                'int:2})", \'dict{}\', [\'data\'])] || io=[]',
 'to_dataset nested-lazy chunks=rows positional': "{type=Dataset; data_vars=['overview']; coords=[]; "
                                                  "variables=['overview']; sizes=dict{str:'rows': int:4, "
                                                  "str:'cols': int:6}; attrs=dict{str:'mission': "
                                                  "str:'ALOS2'}; encoding=dict{}; indexes=[]; var "
                                                  "overview={type=Variable; dims=tuple(str:'rows', "
                                                  "str:'cols'); shape=tuple(int:4, int:6); "
                                                  "dtype=dtype('uint16'); attrs=dict{}; "
                                                  "encoding=dict{str:'preferred_chunksizes': "
                                                  "dict{str:'rows': int:1, str:'cols': int:6}}; "
                                                  "in_memory=False; data=['LazilyIndexedArray', "
                                                  "'LazilyIndexedWrapper', 'Array']; wrapper=('tuple(int:4, "
                                                  'int:6)\', "dtype(\'uint16\')", \'SerializableLock\', '
                                                  "'Array'); values=ndarray[<u2(4, 6)][[0, 3, 6, 9, 12, 15], "
                                                  '[18, 21, 24, 27, 30, 33], [36, 39, 42, 45, 48, 51], [54, '
                                                  "57, 60, 63, 66, 69]]; io=[('open', ('overview',), "
                                                  "{'mode': 'rb'}), 'enter', ('seek', (16,), {}), ('read', "
                                                  "(12,), {}), ('seek', (44,), {}), ('read', (12,), {}), "
                                                  "('seek', (72,), {}), ('read', (12,), {}), ('seek', "
                                                  "(100,), {}), ('read', (12,), {}), 'exit']}} "
                                                  'attrs_untouched=True || locks=1 '
                                                  'chunk_calls=[("tuple(dict{str:\'rows\': int:2})", '
                                                  "'dict{}', ['overview'])] || io=[]",
 'to_datatree nested-lazy chunks=rows positional': "{type=DataTree; paths=['/', '/imagery', '/imagery/HH', "
                                                   "'/imagery/HV']; node /={type=Dataset; "
                                                   "data_vars=['overview']; coords=[]; "
                                                   "variables=['overview']; sizes=dict{str:'rows': int:4, "
                                                   "str:'cols': int:6}; attrs=dict{str:'mission': "
                                                   "str:'ALOS2'}; encoding=dict{}; indexes=[]; var "
                                                   "overview={type=Variable; dims=tuple(str:'rows', "
                                                   "str:'cols'); shape=tuple(int:4, int:6); "
                                                   "dtype=dtype('uint16'); attrs=dict{}; "
                                                   "encoding=dict{str:'preferred_chunksizes': "
                                                   "dict{str:'rows': int:1, str:'cols': int:6}}; "
                                                   "in_memory=False; data=['LazilyIndexedArray', "
                                                   "'LazilyIndexedWrapper', 'Array']; wrapper=('tuple(int:4, "
                                                   'int:6)\', "dtype(\'uint16\')", \'SerializableLock\', '
                                                   "'Array'); values=ndarray[<u2(4, 6)][[0, 3, 6, 9, 12, "
                                                   '15], [18, 21, 24, 27, 30, 33], [36, 39, 42, 45, 48, 51], '
                                                   "[54, 57, 60, 63, 66, 69]]; io=[('open', ('overview',), "
                                                   "{'mode': 'rb'}), 'enter', ('seek', (16,), {}), ('read', "
                                                   "(12,), {}), ('seek', (44,), {}), ('read', (12,), {}), "
                                                   "('seek', (72,), {}), ('read', (12,), {}), ('seek', "
                                                   "(100,), {}), ('read', (12,), {}), 'exit']}}; children "
                                                   "/=['imagery']; node /imagery={type=Dataset; "
                                                   'data_vars=[]; coords=[]; variables=[]; sizes=dict{}; '
                                                   'attrs=dict{}; encoding=dict{}; indexes=[]}; children '
                                                   "/imagery=['HH', 'HV']; node /imagery/HH={type=Dataset; "
                                                   "data_vars=['data']; coords=[]; variables=['data']; "
                                                   "sizes=dict{str:'rows': int:4, str:'cols': int:6}; "
                                                   "attrs=dict{str:'polarization': str:'HH'}; "
                                                   'encoding=dict{}; indexes=[]; var data={type=Variable; '
                                                   "dims=tuple(str:'rows', str:'cols'); shape=tuple(int:4, "
                                                   "int:6); dtype=dtype('uint16'); attrs=dict{}; "
                                                   "encoding=dict{str:'preferred_chunksizes': "
                                                   "dict{str:'rows': int:2, str:'cols': int:6}}; "
                                                   "in_memory=False; data=['LazilyIndexedArray', "
                                                   "'LazilyIndexedWrapper', 'Array']; wrapper=('tuple(int:4, "
                                                   'int:6)\', "dtype(\'uint16\')", \'SerializableLock\', '
                                                   "'Array'); values=ndarray[<u2(4, 6)][[0, 3, 6, 9, 12, "
                                                   '15], [18, 21, 24, 27, 30, 33], [36, 39, 42, 45, 48, 51], '
                                                   "[54, 57, 60, 63, 66, 69]]; io=[('open', ('hh',), "
                                                   "{'mode': 'rb'}), 'enter', ('seek', (16,), {}), ('read', "
                                                   "(40,), {}), ('seek', (72,), {}), ('read', (40,), {}), "
                                                   "'exit']}}; children /imagery/HH=[]; node "
                                                   "/imagery/HV={type=Dataset; data_vars=['data']; "
                                                   "coords=[]; variables=['data']; sizes=dict{str:'rows': "
                                                   "int:4, str:'cols': int:6}; "
                                                   "attrs=dict{str:'polarization': str:'HV'}; "
                                                   'encoding=dict{}; indexes=[]; var data={type=Variable; '
                                                   "dims=tuple(str:'rows', str:'cols'); shape=tuple(int:4, "
                                                   "int:6); dtype=dtype('uint16'); attrs=dict{}; "
                                                   "encoding=dict{str:'preferred_chunksizes': "
                                                   "dict{str:'rows': int:4, str:'cols': int:6}}; "
                                                   "in_memory=False; data=['LazilyIndexedArray', "
                                                   "'LazilyIndexedWrapper', 'Array']; wrapper=('tuple(int:4, "
                                                   'int:6)\', "dtype(\'uint16\')", \'SerializableLock\', '
                                                   "'Array'); values=ndarray[<u2(4, 6)][[0, 3, 6, 9, 12, "
                                                   '15], [18, 21, 24, 27, 30, 33], [36, 39, 42, 45, 48, 51], '
                                                   "[54, 57, 60, 63, 66, 69]]; io=[('open', ('hv',), "
                                                   "{'mode': 'rb'}), 'enter', ('seek', (16,), {}), ('read', "
                                                   "(96,), {}), 'exit']}}; children /imagery/HV=[]} "
                                                   'attrs_untouched=True || locks=4 '
                                                   'chunk_calls=[("tuple(dict{str:\'rows\': int:2})", '
                                                   '\'dict{}\', [\'overview\']), ("tuple(dict{str:\'rows\': '
                                                   'int:2})", \'dict{}\', [\'overview\']), '
                                                   "('tuple(dict{})', 'dict{}', []), "
                                                   '("tuple(dict{str:\'rows\': int:2})", \'dict{}\', '
                                                   '[\'data\']), ("tuple(dict{str:\'rows\': int:2})", '
                                                   "'dict{}', ['data'])] || io=[]",
 'to_dataset nested-lazy chunks=-1 keyword': "raise builtins.AttributeError: 'int' object has no attribute "
                                             "'items' || locks=1 chunk_calls=[] || io=[]",
 'to_datatree nested-lazy chunks=-1 keyword': "raise builtins.AttributeError: 'int' object has no attribute "
                                              "'items' || locks=1 chunk_calls=[] || io=[]",
 'to_dataset nested-lazy chunks=-1 positional': "raise builtins.AttributeError: 'int' object has no "
                                                "attribute 'items' || locks=1 chunk_calls=[] || io=[]",
 'to_datatree nested-lazy chunks=-1 positional': "raise builtins.AttributeError: 'int' object has no "
                                                 "attribute 'items' || locks=1 chunk_calls=[] || io=[]",
 'to_dataset nested-lazy default': "{type=Dataset; data_vars=['overview']; coords=[]; "
                                   "variables=['overview']; sizes=dict{str:'rows': int:4, str:'cols': "
                                   "int:6}; attrs=dict{str:'mission': str:'ALOS2'}; encoding=dict{}; "
                                   "indexes=[]; var overview={type=Variable; dims=tuple(str:'rows', "
                                   "str:'cols'); shape=tuple(int:4, int:6); dtype=dtype('uint16'); "
                                   "attrs=dict{}; encoding=dict{str:'preferred_chunksizes': dict{str:'rows': "
                                   "int:1, str:'cols': int:6}}; in_memory=False; data=['LazilyIndexedArray', "
                                   "'LazilyIndexedWrapper', 'Array']; wrapper=('tuple(int:4, int:6)', "
                                   '"dtype(\'uint16\')", \'SerializableLock\', \'Array\'); '
                                   'values=ndarray[<u2(4, 6)][[0, 3, 6, 9, 12, 15], [18, 21, 24, 27, 30, '
                                   "33], [36, 39, 42, 45, 48, 51], [54, 57, 60, 63, 66, 69]]; io=[('open', "
                                   "('overview',), {'mode': 'rb'}), 'enter', ('seek', (16,), {}), ('read', "
                                   "(12,), {}), ('seek', (44,), {}), ('read', (12,), {}), ('seek', (72,), "
                                   "{}), ('read', (12,), {}), ('seek', (100,), {}), ('read', (12,), {}), "
                                   "'exit']}} attrs_untouched=True || locks=1 chunk_calls=[] || io=[]",
 'to_datatree nested-lazy default': "{type=DataTree; paths=['/', '/imagery', '/imagery/HH', '/imagery/HV']; "
                                    "node /={type=Dataset; data_vars=['overview']; coords=[]; "
                                    "variables=['overview']; sizes=dict{str:'rows': int:4, str:'cols': "
                                    "int:6}; attrs=dict{str:'mission': str:'ALOS2'}; encoding=dict{}; "
                                    "indexes=[]; var overview={type=Variable; dims=tuple(str:'rows', "
                                    "str:'cols'); shape=tuple(int:4, int:6); dtype=dtype('uint16'); "
                                    "attrs=dict{}; encoding=dict{str:'preferred_chunksizes': "
                                    "dict{str:'rows': int:1, str:'cols': int:6}}; in_memory=False; "
                                    "data=['LazilyIndexedArray', 'LazilyIndexedWrapper', 'Array']; "
                                    'wrapper=(\'tuple(int:4, int:6)\', "dtype(\'uint16\')", '
                                    "'SerializableLock', 'Array'); values=ndarray[<u2(4, 6)][[0, 3, 6, 9, "
                                    '12, 15], [18, 21, 24, 27, 30, 33], [36, 39, 42, 45, 48, 51], [54, 57, '
                                    "60, 63, 66, 69]]; io=[('open', ('overview',), {'mode': 'rb'}), 'enter', "
                                    "('seek', (16,), {}), ('read', (12,), {}), ('seek', (44,), {}), ('read', "
                                    "(12,), {}), ('seek', (72,), {}), ('read', (12,), {}), ('seek', (100,), "
                                    "{}), ('read', (12,), {}), 'exit']}}; children /=['imagery']; node "
                                    '/imagery={type=Dataset; data_vars=[]; coords=[]; variables=[]; '
                                    'sizes=dict{}; attrs=dict{}; encoding=dict{}; indexes=[]}; children '
                                    "/imagery=['HH', 'HV']; node /imagery/HH={type=Dataset; "
                                    "data_vars=['data']; coords=[]; variables=['data']; "
                                    "sizes=dict{str:'rows': int:4, str:'cols': int:6}; "
                                    "attrs=dict{str:'polarization': str:'HH'}; encoding=dict{}; indexes=[]; "
                                    "var data={type=Variable; dims=tuple(str:'rows', str:'cols'); "
                                    "shape=tuple(int:4, int:6); dtype=dtype('uint16'); attrs=dict{}; "
                                    "encoding=dict{str:'preferred_chunksizes': dict{str:'rows': int:2, "
                                    "str:'cols': int:6}}; in_memory=False; data=['LazilyIndexedArray', "
                                    "'LazilyIndexedWrapper', 'Array']; wrapper=('tuple(int:4, int:6)', "
                                    '"dtype(\'uint16\')", \'SerializableLock\', \'Array\'); '
                                    'values=ndarray[<u2(4, 6)][[0, 3, 6, 9, 12, 15], [18, 21, 24, 27, 30, '
                                    "33], [36, 39, 42, 45, 48, 51], [54, 57, 60, 63, 66, 69]]; io=[('open', "
                                    "('hh',), {'mode': 'rb'}), 'enter', ('seek', (16,), {}), ('read', (40,), "
                                    "{}), ('seek', (72,), {}), ('read', (40,), {}), 'exit']}}; children "
                                    "/imagery/HH=[]; node /imagery/HV={type=Dataset; data_vars=['data']; "
                                    "coords=[]; variables=['data']; sizes=dict{str:'rows': int:4, "
                                    "str:'cols': int:6}; attrs=dict{str:'polarization': str:'HV'}; "
                                    'encoding=dict{}; indexes=[]; var data={type=Variable; '
                                    "dims=tuple(str:'rows', str:'cols'); shape=tuple(int:4, int:6); "
                                    "dtype=dtype('uint16'); attrs=dict{}; "
                                    "encoding=dict{str:'preferred_chunksizes': dict{str:'rows': int:4, "
                                    "str:'cols': int:6}}; in_memory=False; data=['LazilyIndexedArray', "
                                    "'LazilyIndexedWrapper', 'Array']; wrapper=('tuple(int:4, int:6)', "
                                    '"dtype(\'uint16\')", \'SerializableLock\', \'Array\'); '
                                    'values=ndarray[<u2(4, 6)][[0, 3, 6, 9, 12, 15], [18, 21, 24, 27, 30, '
                                    "33], [36, 39, 42, 45, 48, 51], [54, 57, 60, 63, 66, 69]]; io=[('open', "
                                    "('hv',), {'mode': 'rb'}), 'enter', ('seek', (16,), {}), ('read', (96,), "
                                    "{}), 'exit']}}; children /imagery/HV=[]} attrs_untouched=True || "
                                    'locks=4 chunk_calls=[] || io=[]',
 'to_dataset subgroup chunks=None keyword': "{type=Dataset; data_vars=[]; coords=['v']; variables=['v']; "
                                            "sizes=dict{str:'z': int:2}; attrs=dict{}; encoding=dict{}; "
                                            "indexes=[]; var v={type=Variable; dims=tuple(str:'z'); "
                                            "shape=tuple(int:2); dtype=dtype('int64'); attrs=dict{}; "
                                            "encoding=dict{}; in_memory=True; data=['ndarray']; "
                                            'values=ndarray[<i8(2,)][0, 1]; io=[]}} attrs_untouched=True || '
                                            'locks=0 chunk_calls=[] || io=[]',
 'to_datatree subgroup chunks=None keyword': "{type=DataTree; paths=['/', '/b', '/b/inner', '/b/inner2', "
                                             "'/b/inner2/deep']; node /={type=Dataset; data_vars=[]; "
                                             "coords=['v']; variables=['v']; sizes=dict{str:'z': int:2}; "
                                             'attrs=dict{}; encoding=dict{}; indexes=[]; var '
                                             "v={type=Variable; dims=tuple(str:'z'); shape=tuple(int:2); "
                                             "dtype=dtype('int64'); attrs=dict{}; encoding=dict{}; "
                                             "in_memory=True; data=['ndarray']; values=ndarray[<i8(2,)][0, "
                                             "1]; io=[]}}; children /=['b']; node /b={type=Dataset; "
                                             "data_vars=[]; coords=['v']; variables=['v']; "
                                             "sizes=dict{str:'z': int:2}; attrs=dict{}; encoding=dict{}; "
                                             "indexes=[]; var v={type=Variable; dims=tuple(str:'z'); "
                                             "shape=tuple(int:2); dtype=dtype('int64'); attrs=dict{}; "
                                             "encoding=dict{}; in_memory=True; data=['ndarray']; "
                                             "values=ndarray[<i8(2,)][0, 1]; io=[]}}; children /b=['inner', "
                                             "'inner2']; node /b/inner={type=Dataset; data_vars=['f']; "
                                             "coords=[]; variables=['f']; sizes=dict{str:'x': int:3, "
                                             "str:'y': int:4}; attrs=dict{str:'level': str:'f'}; "
                                             'encoding=dict{}; indexes=[]; var f={type=Variable; '
                                             "dims=tuple(str:'x', str:'y'); shape=tuple(int:3, int:4); "
                                             "dtype=dtype('int64'); attrs=dict{str:'b': str:'abc'}; "
                                             "encoding=dict{}; in_memory=True; data=['ndarray']; "
                                             'values=ndarray[<i8(3, 4)][[0, 1, 2, 3], [4, 5, 6, 7], [8, 9, '
                                             '10, 11]]; io=[]}}; children /b/inner=[]; node '
                                             '/b/inner2={type=Dataset; data_vars=[]; coords=[]; '
                                             "variables=[]; sizes=dict{}; attrs=dict{str:'n': int:2}; "
                                             "encoding=dict{}; indexes=[]}; children /b/inner2=['deep']; "
                                             "node /b/inner2/deep={type=Dataset; data_vars=['g']; coords=[]; "
                                             "variables=['g']; sizes=dict{str:'x': int:3, str:'y': int:4}; "
                                             "attrs=dict{str:'level': str:'g'}; encoding=dict{}; indexes=[]; "
                                             "var g={type=Variable; dims=tuple(str:'x', str:'y'); "
                                             "shape=tuple(int:3, int:4); dtype=dtype('int64'); "
                                             "attrs=dict{str:'b': str:'abc'}; encoding=dict{}; "
                                             "in_memory=True; data=['ndarray']; values=ndarray[<i8(3, "
                                             '4)][[0, 1, 2, 3], [4, 5, 6, 7], [8, 9, 10, 11]]; io=[]}}; '
                                             'children /b/inner2/deep=[]} attrs_untouched=True || locks=0 '
                                             'chunk_calls=[] || io=[]',
 'to_dataset subgroup chunks=None positional': "{type=Dataset; data_vars=[]; coords=['v']; variables=['v']; "
                                               "sizes=dict{str:'z': int:2}; attrs=dict{}; encoding=dict{}; "
                                               "indexes=[]; var v={type=Variable; dims=tuple(str:'z'); "
                                               "shape=tuple(int:2); dtype=dtype('int64'); attrs=dict{}; "
                                               "encoding=dict{}; in_memory=True; data=['ndarray']; "
                                               'values=ndarray[<i8(2,)][0, 1]; io=[]}} attrs_untouched=True '
                                               '|| locks=0 chunk_calls=[] || io=[]',
 'to_datatree subgroup chunks=None positional': "{type=DataTree; paths=['/', '/b', '/b/inner', '/b/inner2', "
                                                "'/b/inner2/deep']; node /={type=Dataset; data_vars=[]; "
                                                "coords=['v']; variables=['v']; sizes=dict{str:'z': int:2}; "
                                                'attrs=dict{}; encoding=dict{}; indexes=[]; var '
                                                "v={type=Variable; dims=tuple(str:'z'); shape=tuple(int:2); "
                                                "dtype=dtype('int64'); attrs=dict{}; encoding=dict{}; "
                                                "in_memory=True; data=['ndarray']; "
                                                "values=ndarray[<i8(2,)][0, 1]; io=[]}}; children /=['b']; "
                                                "node /b={type=Dataset; data_vars=[]; coords=['v']; "
                                                "variables=['v']; sizes=dict{str:'z': int:2}; attrs=dict{}; "
                                                'encoding=dict{}; indexes=[]; var v={type=Variable; '
                                                "dims=tuple(str:'z'); shape=tuple(int:2); "
                                                "dtype=dtype('int64'); attrs=dict{}; encoding=dict{}; "
                                                "in_memory=True; data=['ndarray']; "
                                                'values=ndarray[<i8(2,)][0, 1]; io=[]}}; children '
                                                "/b=['inner', 'inner2']; node /b/inner={type=Dataset; "
                                                "data_vars=['f']; coords=[]; variables=['f']; "
                                                "sizes=dict{str:'x': int:3, str:'y': int:4}; "
                                                "attrs=dict{str:'level': str:'f'}; encoding=dict{}; "
                                                "indexes=[]; var f={type=Variable; dims=tuple(str:'x', "
                                                "str:'y'); shape=tuple(int:3, int:4); dtype=dtype('int64'); "
                                                "attrs=dict{str:'b': str:'abc'}; encoding=dict{}; "
                                                "in_memory=True; data=['ndarray']; values=ndarray[<i8(3, "
                                                '4)][[0, 1, 2, 3], [4, 5, 6, 7], [8, 9, 10, 11]]; io=[]}}; '
                                                'children /b/inner=[]; node /b/inner2={type=Dataset; '
                                                'data_vars=[]; coords=[]; variables=[]; sizes=dict{}; '
                                                "attrs=dict{str:'n': int:2}; encoding=dict{}; indexes=[]}; "
                                                "children /b/inner2=['deep']; node "
                                                "/b/inner2/deep={type=Dataset; data_vars=['g']; coords=[]; "
                                                "variables=['g']; sizes=dict{str:'x': int:3, str:'y': "
                                                "int:4}; attrs=dict{str:'level': str:'g'}; encoding=dict{}; "
                                                "indexes=[]; var g={type=Variable; dims=tuple(str:'x', "
                                                "str:'y'); shape=tuple(int:3, int:4); dtype=dtype('int64'); "
                                                "attrs=dict{str:'b': str:'abc'}; encoding=dict{}; "
                                                "in_memory=True; data=['ndarray']; values=ndarray[<i8(3, "
                                                '4)][[0, 1, 2, 3], [4, 5, 6, 7], [8, 9, 10, 11]]; io=[]}}; '
                                                'children /b/inner2/deep=[]} attrs_untouched=True || locks=0 '
                                                'chunk_calls=[] || io=[]',
 'to_dataset subgroup chunks=x1y2 keyword': "{type=Dataset; data_vars=[]; coords=['v']; variables=['v']; "
                                            "sizes=dict{str:'z': int:2}; attrs=dict{}; encoding=dict{}; "
                                            "indexes=[]; var v={type=Variable; dims=tuple(str:'z'); "
                                            "shape=tuple(int:2); dtype=dtype('int64'); attrs=dict{}; "
                                            "encoding=dict{}; in_memory=True; data=['ndarray']; "
                                            'values=ndarray[<i8(2,)][0, 1]; io=[]}} attrs_untouched=True || '
                                            "locks=0 chunk_calls=[('tuple(dict{})', 'dict{}', ['v'])] || "
                                            'io=[]',
 'to_datatree subgroup chunks=x1y2 keyword': "{type=DataTree; paths=['/', '/b', '/b/inner', '/b/inner2', "
                                             "'/b/inner2/deep']; node /={type=Dataset; data_vars=[]; "
                                             "coords=['v']; variables=['v']; sizes=dict{str:'z': int:2}; "
                                             'attrs=dict{}; encoding=dict{}; indexes=[]; var '
                                             "v={type=Variable; dims=tuple(str:'z'); shape=tuple(int:2); "
                                             "dtype=dtype('int64'); attrs=dict{}; encoding=dict{}; "
                                             "in_memory=True; data=['ndarray']; values=ndarray[<i8(2,)][0, "
                                             "1]; io=[]}}; children /=['b']; node /b={type=Dataset; "
                                             "data_vars=[]; coords=['v']; variables=['v']; "
                                             "sizes=dict{str:'z': int:2}; attrs=dict{}; encoding=dict{}; "
                                             "indexes=[]; var v={type=Variable; dims=tuple(str:'z'); "
                                             "shape=tuple(int:2); dtype=dtype('int64'); attrs=dict{}; "
                                             "encoding=dict{}; in_memory=True; data=['ndarray']; "
                                             "values=ndarray[<i8(2,)][0, 1]; io=[]}}; children /b=['inner', "
                                             "'inner2']; node /b/inner={type=Dataset; data_vars=['f']; "
                                             "coords=[]; variables=['f']; sizes=dict{str:'x': int:3, "
                                             "str:'y': int:4}; attrs=dict{str:'level': str:'f'}; "
                                             'encoding=dict{}; indexes=[]; var f={type=Variable; '
                                             "dims=tuple(str:'x', str:'y'); shape=tuple(int:3, int:4); "
                                             "dtype=dtype('int64'); attrs=dict{str:'b': str:'abc'}; "
                                             "encoding=dict{}; in_memory=True; data=['ndarray']; "
                                             'values=ndarray[<i8(3, 4)][[0, 1, 2, 3], [4, 5, 6, 7], [8, 9, '
                                             '10, 11]]; io=[]}}; children /b/inner=[]; node '
                                             '/b/inner2={type=Dataset; data_vars=[]; coords=[]; '
                                             "variables=[]; sizes=dict{}; attrs=dict{str:'n': int:2}; "
                                             "encoding=dict{}; indexes=[]}; children /b/inner2=['deep']; "
                                             "node /b/inner2/deep={type=Dataset; data_vars=['g']; coords=[]; "
                                             "variables=['g']; sizes=dict{str:'x': int:3, str:'y': int:4}; "
                                             "attrs=dict{str:'level': str:'g'}; encoding=dict{}; indexes=[]; "
                                             "var g={type=Variable; dims=tuple(str:'x', str:'y'); "
                                             "shape=tuple(int:3, int:4); dtype=dtype('int64'); "
                                             "attrs=dict{str:'b': str:'abc'}; encoding=dict{}; "
                                             "in_memory=True; data=['ndarray']; values=ndarray[<i8(3, "
                                             '4)][[0, 1, 2, 3], [4, 5, 6, 7], [8, 9, 10, 11]]; io=[]}}; '
                                             'children /b/inner2/deep=[]} attrs_untouched=True || locks=0 '
                                             "chunk_calls=[('tuple(dict{})', 'dict{}', ['v']), "
                                             "('tuple(dict{})', 'dict{}', ['v']), "
                                             '("tuple(dict{str:\'x\': int:1, str:\'y\': int:2})", '
                                             "'dict{}', ['f']), ('tuple(dict{})', 'dict{}', []), "
                                             '("tuple(dict{str:\'x\': int:1, str:\'y\': int:2})", '
                                             "'dict{}', ['g'])] || io=[]",
 'to_dataset subgroup chunks=rows keyword': "{type=Dataset; data_vars=[]; coords=['v']; variables=['v']; "
                                            "sizes=dict{str:'z': int:2}; attrs=dict{}; encoding=dict{}; "
                                            "indexes=[]; var v={type=Variable; dims=tuple(str:'z'); "
                                            "shape=tuple(int:2); dtype=dtype('int64'); attrs=dict{}; "
                                            "encoding=dict{}; in_memory=True; data=['ndarray']; "
                                            'values=ndarray[<i8(2,)][0, 1]; io=[]}} attrs_untouched=True || '
                                            "locks=0 chunk_calls=[('tuple(dict{})', 'dict{}', ['v'])] || "
                                            'io=[]',
 'to_datatree subgroup chunks=rows keyword': "{type=DataTree; paths=['/', '/b', '/b/inner', '/b/inner2', "
                                             "'/b/inner2/deep']; node /={type=Dataset; data_vars=[]; "
                                             "coords=['v']; variables=['v']; sizes=dict{str:'z': int:2}; "
                                             'attrs=dict{}; encoding=dict{}; indexes=[]; var '
                                             "v={type=Variable; dims=tuple(str:'z'); shape=tuple(int:2); "
                                             "dtype=dtype('int64'); attrs=dict{}; encoding=dict{}; "
                                             "in_memory=True; data=['ndarray']; values=ndarray[<i8(2,)][0, "
                                             "1]; io=[]}}; children /=['b']; node /b={type=Dataset; "
                                             "data_vars=[]; coords=['v']; variables=['v']; "
                                             "sizes=dict{str:'z': int:2}; attrs=dict{}; encoding=dict{}; "
                                             "indexes=[]; var v={type=Variable; dims=tuple(str:'z'); "
                                             "shape=tuple(int:2); dtype=dtype('int64'); attrs=dict{}; "
                                             "encoding=dict{}; in_memory=True; data=['ndarray']; "
                                             "values=ndarray[<i8(2,)][0, 1]; io=[]}}; children /b=['inner', "
                                             "'inner2']; node /b/inner={type=Dataset; data_vars=['f']; "
                                             "coords=[]; variables=['f']; sizes=dict{str:'x': int:3, "
                                             "str:'y': int:4}; attrs=dict{str:'level': str:'f'}; "
                                             'encoding=dict{}; indexes=[]; var f={type=Variable; '
                                             "dims=tuple(str:'x', str:'y'); shape=tuple(int:3, int:4); "
                                             "dtype=dtype('int64'); attrs=dict{str:'b': str:'abc'}; "
                                             "encoding=dict{}; in_memory=True; data=['ndarray']; "
                                             'values=ndarray[<i8(3, 4)][[0, 1, 2, 3], [4, 5, 6, 7], [8, 9, '
                                             '10, 11]]; io=[]}}; children /b/inner=[]; node '
                                             '/b/inner2={type=Dataset; data_vars=[]; coords=[]; '
                                             "variables=[]; sizes=dict{}; attrs=dict{str:'n': int:2}; "
                                             "encoding=dict{}; indexes=[]}; children /b/inner2=['deep']; "
                                             "node /b/inner2/deep={type=Dataset; data_vars=['g']; coords=[]; "
                                             "variables=['g']; sizes=dict{str:'x': int:3, str:'y': int:4}; "
                                             "attrs=dict{str:'level': str:'g'}; encoding=dict{}; indexes=[]; "
                                             "var g={type=Variable; dims=tuple(str:'x', str:'y'); "
                                             "shape=tuple(int:3, int:4); dtype=dtype('int64'); "
                                             "attrs=dict{str:'b': str:'abc'}; encoding=dict{}; "
                                             "in_memory=True; data=['ndarray']; values=ndarray[<i8(3, "
                                             '4)][[0, 1, 2, 3], [4, 5, 6, 7], [8, 9, 10, 11]]; io=[]}}; '
                                             'children /b/inner2/deep=[]} attrs_untouched=True || locks=0 '
                                             "chunk_calls=[('tuple(dict{})', 'dict{}', ['v']), "
                                             "('tuple(dict{})', 'dict{}', ['v']), ('tuple(dict{})', "
                                             "'dict{}', ['f']), ('tuple(dict{})', 'dict{}', []), "
                                             "('tuple(dict{})', 'dict{}', ['g'])] || io=[]",
 'to_dataset subgroup chunks=rows positional': "{type=Dataset; data_vars=[]; coords=['v']; variables=['v']; "
                                               "sizes=dict{str:'z': int:2}; attrs=dict{}; encoding=dict{}; "
                                               "indexes=[]; var v={type=Variable; dims=tuple(str:'z'); "
                                               "shape=tuple(int:2); dtype=dtype('int64'); attrs=dict{}; "
                                               "encoding=dict{}; in_memory=True; data=['ndarray']; "
                                               'values=ndarray[<i8(2,)][0, 1]; io=[]}} attrs_untouched=True '
                                               "|| locks=0 chunk_calls=[('tuple(dict{})', 'dict{}', ['v'])] "
                                               '|| io=[]',
 'to_datatree subgroup chunks=rows positional': "{type=DataTree; paths=['/', '/b', '/b/inner', '/b/inner2', "
                                                "'/b/inner2/deep']; node /={type=Dataset; data_vars=[]; "
                                                "coords=['v']; variables=['v']; sizes=dict{str:'z': int:2}; "
                                                'attrs=dict{}; encoding=dict{}; indexes=[]; var '
                                                "v={type=Variable; dims=tuple(str:'z'); shape=tuple(int:2); "
                                                "dtype=dtype('int64'); attrs=dict{}; encoding=dict{}; "
                                                "in_memory=True; data=['ndarray']; "
                                                "values=ndarray[<i8(2,)][0, 1]; io=[]}}; children /=['b']; "
                                                "node /b={type=Dataset; data_vars=[]; coords=['v']; "
                                                "variables=['v']; sizes=dict{str:'z': int:2}; attrs=dict{}; "
                                                'encoding=dict{}; indexes=[]; var v={type=Variable; '
                                                "dims=tuple(str:'z'); shape=tuple(int:2); "
                                                "dtype=dtype('int64'); attrs=dict{}; encoding=dict{}; "
                                                "in_memory=True; data=['ndarray']; "
                                                'values=ndarray[<i8(2,)][0, 1]; io=[]}}; children '
                                                "/b=['inner', 'inner2']; node /b/inner={type=Dataset; "
                                                "data_vars=['f']; coords=[]; variables=['f']; "
                                                "sizes=dict{str:'x': int:3, str:'y': int:4}; "
                                                "attrs=dict{str:'level': str:'f'}; encoding=dict{}; "
                                                "indexes=[]; var f={type=Variable; dims=tuple(str:'x', "
                                                "str:'y'); shape=tuple(int:3, int:4); dtype=dtype('int64'); "
                                                "attrs=dict{str:'b': str:'abc'}; encoding=dict{}; "
                                                "in_memory=True; data=['ndarray']; values=ndarray[<i8(3, "
                                                '4)][[0, 1, 2, 3], [4, 5, 6, 7], [8, 9, 10, 11]]; io=[]}}; '
                                                'children /b/inner=[]; node /b/inner2={type=Dataset; '
                                                'data_vars=[]; coords=[]; variables=[]; sizes=dict{}; '
                                                "attrs=dict{str:'n': int:2}; encoding=dict{}; indexes=[]}; "
                                                "children /b/inner2=['deep']; node "
                                                "/b/inner2/deep={type=Dataset; data_vars=['g']; coords=[]; "
                                                "variables=['g']; sizes=dict{str:'x': int:3, str:'y': "
                                                "int:4}; attrs=dict{str:'level': str:'g'}; encoding=dict{}; "
                                                "indexes=[]; var g={type=Variable; dims=tuple(str:'x', "
                                                "str:'y'); shape=tuple(int:3, int:4); dtype=dtype('int64'); "
                                                "attrs=dict{str:'b': str:'abc'}; encoding=dict{}; "
                                                "in_memory=True; data=['ndarray']; values=ndarray[<i8(3, "
                                                '4)][[0, 1, 2, 3], [4, 5, 6, 7], [8, 9, 10, 11]]; io=[]}}; '
                                                'children /b/inner2/deep=[]} attrs_untouched=True || locks=0 '
                                                "chunk_calls=[('tuple(dict{})', 'dict{}', ['v']), "
                                                "('tuple(dict{})', 'dict{}', ['v']), ('tuple(dict{})', "
                                                "'dict{}', ['f']), ('tuple(dict{})', 'dict{}', []), "
                                                "('tuple(dict{})', 'dict{}', ['g'])] || io=[]",
 'to_dataset subgroup chunks=-1 keyword': "raise builtins.AttributeError: 'int' object has no attribute "
                                          "'items' || locks=0 chunk_calls=[] || io=[]",
 'to_datatree subgroup chunks=-1 keyword': "raise builtins.AttributeError: 'int' object has no attribute "
                                           "'items' || locks=0 chunk_calls=[] || io=[]",
 'to_dataset subgroup chunks=-1 positional': "raise builtins.AttributeError: 'int' object has no attribute "
                                             "'items' || locks=0 chunk_calls=[] || io=[]",
 'to_datatree subgroup chunks=-1 positional': "raise builtins.AttributeError: 'int' object has no attribute "
                                              "'items' || locks=0 chunk_calls=[] || io=[]",
 'to_dataset subgroup default': "{type=Dataset; data_vars=[]; coords=['v']; variables=['v']; "
                                "sizes=dict{str:'z': int:2}; attrs=dict{}; encoding=dict{}; indexes=[]; var "
                                "v={type=Variable; dims=tuple(str:'z'); shape=tuple(int:2); "
                                "dtype=dtype('int64'); attrs=dict{}; encoding=dict{}; in_memory=True; "
                                "data=['ndarray']; values=ndarray[<i8(2,)][0, 1]; io=[]}} "
                                'attrs_untouched=True || locks=0 chunk_calls=[] || io=[]',
 'to_datatree subgroup default': "{type=DataTree; paths=['/', '/b', '/b/inner', '/b/inner2', "
                                 "'/b/inner2/deep']; node /={type=Dataset; data_vars=[]; coords=['v']; "
                                 "variables=['v']; sizes=dict{str:'z': int:2}; attrs=dict{}; "
                                 "encoding=dict{}; indexes=[]; var v={type=Variable; dims=tuple(str:'z'); "
                                 "shape=tuple(int:2); dtype=dtype('int64'); attrs=dict{}; encoding=dict{}; "
                                 "in_memory=True; data=['ndarray']; values=ndarray[<i8(2,)][0, 1]; io=[]}}; "
                                 "children /=['b']; node /b={type=Dataset; data_vars=[]; coords=['v']; "
                                 "variables=['v']; sizes=dict{str:'z': int:2}; attrs=dict{}; "
                                 "encoding=dict{}; indexes=[]; var v={type=Variable; dims=tuple(str:'z'); "
                                 "shape=tuple(int:2); dtype=dtype('int64'); attrs=dict{}; encoding=dict{}; "
                                 "in_memory=True; data=['ndarray']; values=ndarray[<i8(2,)][0, 1]; io=[]}}; "
                                 "children /b=['inner', 'inner2']; node /b/inner={type=Dataset; "
                                 "data_vars=['f']; coords=[]; variables=['f']; sizes=dict{str:'x': int:3, "
                                 "str:'y': int:4}; attrs=dict{str:'level': str:'f'}; encoding=dict{}; "
                                 "indexes=[]; var f={type=Variable; dims=tuple(str:'x', str:'y'); "
                                 "shape=tuple(int:3, int:4); dtype=dtype('int64'); attrs=dict{str:'b': "
                                 "str:'abc'}; encoding=dict{}; in_memory=True; data=['ndarray']; "
                                 'values=ndarray[<i8(3, 4)][[0, 1, 2, 3], [4, 5, 6, 7], [8, 9, 10, 11]]; '
                                 'io=[]}}; children /b/inner=[]; node /b/inner2={type=Dataset; data_vars=[]; '
                                 "coords=[]; variables=[]; sizes=dict{}; attrs=dict{str:'n': int:2}; "
                                 "encoding=dict{}; indexes=[]}; children /b/inner2=['deep']; node "
                                 "/b/inner2/deep={type=Dataset; data_vars=['g']; coords=[]; variables=['g']; "
                                 "sizes=dict{str:'x': int:3, str:'y': int:4}; attrs=dict{str:'level': "
                                 "str:'g'}; encoding=dict{}; indexes=[]; var g={type=Variable; "
                                 "dims=tuple(str:'x', str:'y'); shape=tuple(int:3, int:4); "
                                 "dtype=dtype('int64'); attrs=dict{str:'b': str:'abc'}; encoding=dict{}; "
                                 "in_memory=True; data=['ndarray']; values=ndarray[<i8(3, 4)][[0, 1, 2, 3], "
                                 '[4, 5, 6, 7], [8, 9, 10, 11]]; io=[]}}; children /b/inner2/deep=[]} '
                                 'attrs_untouched=True || locks=0 chunk_calls=[] || io=[]',
 'to_dataset leaf-subgroup chunks=None keyword': "{type=Dataset; data_vars=['g']; coords=[]; "
                                                 "variables=['g']; sizes=dict{str:'x': int:3, str:'y': "
                                                 "int:4}; attrs=dict{str:'level': str:'g'}; encoding=dict{}; "
                                                 "indexes=[]; var g={type=Variable; dims=tuple(str:'x', "
                                                 "str:'y'); shape=tuple(int:3, int:4); dtype=dtype('int64'); "
                                                 "attrs=dict{str:'b': str:'abc'}; encoding=dict{}; "
                                                 "in_memory=True; data=['ndarray']; values=ndarray[<i8(3, "
                                                 '4)][[0, 1, 2, 3], [4, 5, 6, 7], [8, 9, 10, 11]]; io=[]}} '
                                                 'attrs_untouched=True || locks=0 chunk_calls=[] || io=[]',
 'to_datatree leaf-subgroup chunks=None keyword': "{type=DataTree; paths=['/', '/b', '/b/inner2', "
                                                  "'/b/inner2/deep']; node /={type=Dataset; data_vars=['g']; "
                                                  "coords=[]; variables=['g']; sizes=dict{str:'x': int:3, "
                                                  "str:'y': int:4}; attrs=dict{str:'level': str:'g'}; "
                                                  'encoding=dict{}; indexes=[]; var g={type=Variable; '
                                                  "dims=tuple(str:'x', str:'y'); shape=tuple(int:3, int:4); "
                                                  "dtype=dtype('int64'); attrs=dict{str:'b': str:'abc'}; "
                                                  "encoding=dict{}; in_memory=True; data=['ndarray']; "
                                                  'values=ndarray[<i8(3, 4)][[0, 1, 2, 3], [4, 5, 6, 7], [8, '
                                                  "9, 10, 11]]; io=[]}}; children /=['b']; node "
                                                  '/b={type=Dataset; data_vars=[]; coords=[]; variables=[]; '
                                                  'sizes=dict{}; attrs=dict{}; encoding=dict{}; indexes=[]}; '
                                                  "children /b=['inner2']; node /b/inner2={type=Dataset; "
                                                  'data_vars=[]; coords=[]; variables=[]; sizes=dict{}; '
                                                  'attrs=dict{}; encoding=dict{}; indexes=[]}; children '
                                                  "/b/inner2=['deep']; node /b/inner2/deep={type=Dataset; "
                                                  "data_vars=['g']; coords=[]; variables=['g']; "
                                                  "sizes=dict{str:'x': int:3, str:'y': int:4}; "
                                                  "attrs=dict{str:'level': str:'g'}; encoding=dict{}; "
                                                  "indexes=[]; var g={type=Variable; dims=tuple(str:'x', "
                                                  "str:'y'); shape=tuple(int:3, int:4); "
                                                  "dtype=dtype('int64'); attrs=dict{str:'b': str:'abc'}; "
                                                  "encoding=dict{}; in_memory=True; data=['ndarray']; "
                                                  'values=ndarray[<i8(3, 4)][[0, 1, 2, 3], [4, 5, 6, 7], [8, '
                                                  '9, 10, 11]]; io=[]}}; children /b/inner2/deep=[]} '
                                                  'attrs_untouched=True || locks=0 chunk_calls=[] || io=[]',
 'to_dataset leaf-subgroup chunks=None positional': "{type=Dataset; data_vars=['g']; coords=[]; "
                                                    "variables=['g']; sizes=dict{str:'x': int:3, str:'y': "
                                                    "int:4}; attrs=dict{str:'level': str:'g'}; "
                                                    'encoding=dict{}; indexes=[]; var g={type=Variable; '
                                                    "dims=tuple(str:'x', str:'y'); shape=tuple(int:3, "
                                                    "int:4); dtype=dtype('int64'); attrs=dict{str:'b': "
                                                    "str:'abc'}; encoding=dict{}; in_memory=True; "
                                                    "data=['ndarray']; values=ndarray[<i8(3, 4)][[0, 1, 2, "
                                                    '3], [4, 5, 6, 7], [8, 9, 10, 11]]; io=[]}} '
                                                    'attrs_untouched=True || locks=0 chunk_calls=[] || io=[]',
 'to_datatree leaf-subgroup chunks=None positional': "{type=DataTree; paths=['/', '/b', '/b/inner2', "
                                                     "'/b/inner2/deep']; node /={type=Dataset; "
                                                     "data_vars=['g']; coords=[]; variables=['g']; "
                                                     "sizes=dict{str:'x': int:3, str:'y': int:4}; "
                                                     "attrs=dict{str:'level': str:'g'}; encoding=dict{}; "
                                                     "indexes=[]; var g={type=Variable; dims=tuple(str:'x', "
                                                     "str:'y'); shape=tuple(int:3, int:4); "
                                                     "dtype=dtype('int64'); attrs=dict{str:'b': str:'abc'}; "
                                                     "encoding=dict{}; in_memory=True; data=['ndarray']; "
                                                     'values=ndarray[<i8(3, 4)][[0, 1, 2, 3], [4, 5, 6, 7], '
                                                     "[8, 9, 10, 11]]; io=[]}}; children /=['b']; node "
                                                     '/b={type=Dataset; data_vars=[]; coords=[]; '
                                                     'variables=[]; sizes=dict{}; attrs=dict{}; '
                                                     "encoding=dict{}; indexes=[]}; children /b=['inner2']; "
                                                     'node /b/inner2={type=Dataset; data_vars=[]; coords=[]; '
                                                     'variables=[]; sizes=dict{}; attrs=dict{}; '
                                                     'encoding=dict{}; indexes=[]}; children '
                                                     "/b/inner2=['deep']; node /b/inner2/deep={type=Dataset; "
                                                     "data_vars=['g']; coords=[]; variables=['g']; "
                                                     "sizes=dict{str:'x': int:3, str:'y': int:4}; "
                                                     "attrs=dict{str:'level': str:'g'}; encoding=dict{}; "
                                                     "indexes=[]; var g={type=Variable; dims=tuple(str:'x', "
                                                     "str:'y'); shape=tuple(int:3, int:4); "
                                                     "dtype=dtype('int64'); attrs=dict{str:'b': str:'abc'}; "
                                                     "encoding=dict{}; in_memory=True; data=['ndarray']; "
                                                     'values=ndarray[<i8(3, 4)][[0, 1, 2, 3], [4, 5, 6, 7], '
                                                     '[8, 9, 10, 11]]; io=[]}}; children /b/inner2/deep=[]} '
                                                     'attrs_untouched=True || locks=0 chunk_calls=[] || '
                                                     'io=[]',
 'to_dataset leaf-subgroup chunks=x1y2 keyword': "{type=Dataset; data_vars=['g']; coords=[]; "
                                                 "variables=['g']; sizes=dict{str:'x': int:3, str:'y': "
                                                 "int:4}; attrs=dict{str:'level': str:'g'}; encoding=dict{}; "
                                                 "indexes=[]; var g={type=Variable; dims=tuple(str:'x', "
                                                 "str:'y'); shape=tuple(int:3, int:4); dtype=dtype('int64'); "
                                                 "attrs=dict{str:'b': str:'abc'}; encoding=dict{}; "
                                                 "in_memory=True; data=['ndarray']; values=ndarray[<i8(3, "
                                                 '4)][[0, 1, 2, 3], [4, 5, 6, 7], [8, 9, 10, 11]]; io=[]}} '
                                                 'attrs_untouched=True || locks=0 '
                                                 'chunk_calls=[("tuple(dict{str:\'x\': int:1, str:\'y\': '
                                                 'int:2})", \'dict{}\', [\'g\'])] || io=[]',
 'to_datatree leaf-subgroup chunks=x1y2 keyword': "{type=DataTree; paths=['/', '/b', '/b/inner2', "
                                                  "'/b/inner2/deep']; node /={type=Dataset; data_vars=['g']; "
                                                  "coords=[]; variables=['g']; sizes=dict{str:'x': int:3, "
                                                  "str:'y': int:4}; attrs=dict{str:'level': str:'g'}; "
                                                  'encoding=dict{}; indexes=[]; var g={type=Variable; '
                                                  "dims=tuple(str:'x', str:'y'); shape=tuple(int:3, int:4); "
                                                  "dtype=dtype('int64'); attrs=dict{str:'b': str:'abc'}; "
                                                  "encoding=dict{}; in_memory=True; data=['ndarray']; "
                                                  'values=ndarray[<i8(3, 4)][[0, 1, 2, 3], [4, 5, 6, 7], [8, '
                                                  "9, 10, 11]]; io=[]}}; children /=['b']; node "
                                                  '/b={type=Dataset; data_vars=[]; coords=[]; variables=[]; '
                                                  'sizes=dict{}; attrs=dict{}; encoding=dict{}; indexes=[]}; '
                                                  "children /b=['inner2']; node /b/inner2={type=Dataset; "
                                                  'data_vars=[]; coords=[]; variables=[]; sizes=dict{}; '
                                                  'attrs=dict{}; encoding=dict{}; indexes=[]}; children '
                                                  "/b/inner2=['deep']; node /b/inner2/deep={type=Dataset; "
                                                  "data_vars=['g']; coords=[]; variables=['g']; "
                                                  "sizes=dict{str:'x': int:3, str:'y': int:4}; "
                                                  "attrs=dict{str:'level': str:'g'}; encoding=dict{}; "
                                                  "indexes=[]; var g={type=Variable; dims=tuple(str:'x', "
                                                  "str:'y'); shape=tuple(int:3, int:4); "
                                                  "dtype=dtype('int64'); attrs=dict{str:'b': str:'abc'}; "
                                                  "encoding=dict{}; in_memory=True; data=['ndarray']; "
                                                  'values=ndarray[<i8(3, 4)][[0, 1, 2, 3], [4, 5, 6, 7], [8, '
                                                  '9, 10, 11]]; io=[]}}; children /b/inner2/deep=[]} '
                                                  'attrs_untouched=True || locks=0 '
                                                  'chunk_calls=[("tuple(dict{str:\'x\': int:1, str:\'y\': '
                                                  'int:2})", \'dict{}\', [\'g\']), ("tuple(dict{str:\'x\': '
                                                  'int:1, str:\'y\': int:2})", \'dict{}\', [\'g\'])] || '
                                                  'io=[]',
 'to_dataset leaf-subgroup chunks=rows keyword': "{type=Dataset; data_vars=['g']; coords=[]; "
                                                 "variables=['g']; sizes=dict{str:'x': int:3, str:'y': "
                                                 "int:4}; attrs=dict{str:'level': str:'g'}; encoding=dict{}; "
                                                 "indexes=[]; var g={type=Variable; dims=tuple(str:'x', "
                                                 "str:'y'); shape=tuple(int:3, int:4); dtype=dtype('int64'); "
                                                 "attrs=dict{str:'b': str:'abc'}; encoding=dict{}; "
                                                 "in_memory=True; data=['ndarray']; values=ndarray[<i8(3, "
                                                 '4)][[0, 1, 2, 3], [4, 5, 6, 7], [8, 9, 10, 11]]; io=[]}} '
                                                 'attrs_untouched=True || locks=0 '
                                                 "chunk_calls=[('tuple(dict{})', 'dict{}', ['g'])] || io=[]",
 'to_datatree leaf-subgroup chunks=rows keyword': "{type=DataTree; paths=['/', '/b', '/b/inner2', "
                                                  "'/b/inner2/deep']; node /={type=Dataset; data_vars=['g']; "
                                                  "coords=[]; variables=['g']; sizes=dict{str:'x': int:3, "
                                                  "str:'y': int:4}; attrs=dict{str:'level': str:'g'}; "
                                                  'encoding=dict{}; indexes=[]; var g={type=Variable; '
                                                  "dims=tuple(str:'x', str:'y'); shape=tuple(int:3, int:4); "
                                                  "dtype=dtype('int64'); attrs=dict{str:'b': str:'abc'}; "
                                                  "encoding=dict{}; in_memory=True; data=['ndarray']; "
                                                  'values=ndarray[<i8(3, 4)][[0, 1, 2, 3], [4, 5, 6, 7], [8, '
                                                  "9, 10, 11]]; io=[]}}; children /=['b']; node "
                                                  '/b={type=Dataset; data_vars=[]; coords=[]; variables=[]; '
                                                  'sizes=dict{}; attrs=dict{}; encoding=dict{}; indexes=[]}; '
                                                  "children /b=['inner2']; node /b/inner2={type=Dataset; "
                                                  'data_vars=[]; coords=[]; variables=[]; sizes=dict{}; '
                                                  'attrs=dict{}; encoding=dict{}; indexes=[]}; children '
                                                  "/b/inner2=['deep']; node /b/inner2/deep={type=Dataset; "
                                                  "data_vars=['g']; coords=[]; variables=['g']; "
                                                  "sizes=dict{str:'x': int:3, str:'y': int:4}; "
                                                  "attrs=dict{str:'level': str:'g'}; encoding=dict{}; "
                                                  "indexes=[]; var g={type=Variable; dims=tuple(str:'x', "
                                                  "str:'y'); shape=tuple(int:3, int:4); "
                                                  "dtype=dtype('int64'); attrs=dict{str:'b': str:'abc'}; "
                                                  "encoding=dict{}; in_memory=True; data=['ndarray']; "
                                                  'values=ndarray[<i8(3, 4)][[0, 1, 2, 3], [4, 5, 6, 7], [8, '
                                                  '9, 10, 11]]; io=[]}}; children /b/inner2/deep=[]} '
                                                  'attrs_untouched=True || locks=0 '
                                                  "chunk_calls=[('tuple(dict{})', 'dict{}', ['g']), "
                                                  "('tuple(dict{})', 'dict{}', ['g'])] || io=[]",
 'to_dataset leaf-subgroup chunks=rows positional': "{type=Dataset; data_vars=['g']; coords=[]; "
                                                    "variables=['g']; sizes=dict{str:'x': int:3, str:'y': "
                                                    "int:4}; attrs=dict{str:'level': str:'g'}; "
                                                    'encoding=dict{}; indexes=[]; var g={type=Variable; '
                                                    "dims=tuple(str:'x', str:'y'); shape=tuple(int:3, "
                                                    "int:4); dtype=dtype('int64'); attrs=dict{str:'b': "
                                                    "str:'abc'}; encoding=dict{}; in_memory=True; "
                                                    "data=['ndarray']; values=ndarray[<i8(3, 4)][[0, 1, 2, "
                                                    '3], [4, 5, 6, 7], [8, 9, 10, 11]]; io=[]}} '
                                                    'attrs_untouched=True || locks=0 '
                                                    "chunk_calls=[('tuple(dict{})', 'dict{}', ['g'])] || "
                                                    'io=[]',
 'to_datatree leaf-subgroup chunks=rows positional': "{type=DataTree; paths=['/', '/b', '/b/inner2', "
                                                     "'/b/inner2/deep']; node /={type=Dataset; "
                                                     "data_vars=['g']; coords=[]; variables=['g']; "
                                                     "sizes=dict{str:'x': int:3, str:'y': int:4}; "
                                                     "attrs=dict{str:'level': str:'g'}; encoding=dict{}; "
                                                     "indexes=[]; var g={type=Variable; dims=tuple(str:'x', "
                                                     "str:'y'); shape=tuple(int:3, int:4); "
                                                     "dtype=dtype('int64'); attrs=dict{str:'b': str:'abc'}; "
                                                     "encoding=dict{}; in_memory=True; data=['ndarray']; "
                                                     'values=ndarray[<i8(3, 4)][[0, 1, 2, 3], [4, 5, 6, 7], '
                                                     "[8, 9, 10, 11]]; io=[]}}; children /=['b']; node "
                                                     '/b={type=Dataset; data_vars=[]; coords=[]; '
                                                     'variables=[]; sizes=dict{}; attrs=dict{}; '
                                                     "encoding=dict{}; indexes=[]}; children /b=['inner2']; "
                                                     'node /b/inner2={type=Dataset; data_vars=[]; coords=[]; '
                                                     'variables=[]; sizes=dict{}; attrs=dict{}; '
                                                     'encoding=dict{}; indexes=[]}; children '
                                                     "/b/inner2=['deep']; node /b/inner2/deep={type=Dataset; "
                                                     "data_vars=['g']; coords=[]; variables=['g']; "
                                                     "sizes=dict{str:'x': int:3, str:'y': int:4}; "
                                                     "attrs=dict{str:'level': str:'g'}; encoding=dict{}; "
                                                     "indexes=[]; var g={type=Variable; dims=tuple(str:'x', "
                                                     "str:'y'); shape=tuple(int:3, int:4); "
                                                     "dtype=dtype('int64'); attrs=dict{str:'b': str:'abc'}; "
                                                     "encoding=dict{}; in_memory=True; data=['ndarray']; "
                                                     'values=ndarray[<i8(3, 4)][[0, 1, 2, 3], [4, 5, 6, 7], '
                                                     '[8, 9, 10, 11]]; io=[]}}; children /b/inner2/deep=[]} '
                                                     'attrs_untouched=True || locks=0 '
                                                     "chunk_calls=[('tuple(dict{})', 'dict{}', ['g']), "
                                                     "('tuple(dict{})', 'dict{}', ['g'])] || io=[]",
 'to_dataset leaf-subgroup chunks=-1 keyword': "raise builtins.AttributeError: 'int' object has no attribute "
                                               "'items' || locks=0 chunk_calls=[] || io=[]",
 'to_datatree leaf-subgroup chunks=-1 keyword': "raise builtins.AttributeError: 'int' object has no "
                                                "attribute 'items' || locks=0 chunk_calls=[] || io=[]",
 'to_dataset leaf-subgroup chunks=-1 positional': "raise builtins.AttributeError: 'int' object has no "
                                                  "attribute 'items' || locks=0 chunk_calls=[] || io=[]",
 'to_datatree leaf-subgroup chunks=-1 positional': "raise builtins.AttributeError: 'int' object has no "
                                                   "attribute 'items' || locks=0 chunk_calls=[] || io=[]",
 'to_dataset leaf-subgroup default': "{type=Dataset; data_vars=['g']; coords=[]; variables=['g']; "
                                     "sizes=dict{str:'x': int:3, str:'y': int:4}; attrs=dict{str:'level': "
                                     "str:'g'}; encoding=dict{}; indexes=[]; var g={type=Variable; "
                                     "dims=tuple(str:'x', str:'y'); shape=tuple(int:3, int:4); "
                                     "dtype=dtype('int64'); attrs=dict{str:'b': str:'abc'}; encoding=dict{}; "
                                     "in_memory=True; data=['ndarray']; values=ndarray[<i8(3, 4)][[0, 1, 2, "
                                     '3], [4, 5, 6, 7], [8, 9, 10, 11]]; io=[]}} attrs_untouched=True || '
                                     'locks=0 chunk_calls=[] || io=[]',
 'to_datatree leaf-subgroup default': "{type=DataTree; paths=['/', '/b', '/b/inner2', '/b/inner2/deep']; "
                                      "node /={type=Dataset; data_vars=['g']; coords=[]; variables=['g']; "
                                      "sizes=dict{str:'x': int:3, str:'y': int:4}; attrs=dict{str:'level': "
                                      "str:'g'}; encoding=dict{}; indexes=[]; var g={type=Variable; "
                                      "dims=tuple(str:'x', str:'y'); shape=tuple(int:3, int:4); "
                                      "dtype=dtype('int64'); attrs=dict{str:'b': str:'abc'}; "
                                      "encoding=dict{}; in_memory=True; data=['ndarray']; "
                                      'values=ndarray[<i8(3, 4)][[0, 1, 2, 3], [4, 5, 6, 7], [8, 9, 10, '
                                      "11]]; io=[]}}; children /=['b']; node /b={type=Dataset; data_vars=[]; "
                                      'coords=[]; variables=[]; sizes=dict{}; attrs=dict{}; encoding=dict{}; '
                                      "indexes=[]}; children /b=['inner2']; node /b/inner2={type=Dataset; "
                                      'data_vars=[]; coords=[]; variables=[]; sizes=dict{}; attrs=dict{}; '
                                      "encoding=dict{}; indexes=[]}; children /b/inner2=['deep']; node "
                                      "/b/inner2/deep={type=Dataset; data_vars=['g']; coords=[]; "
                                      "variables=['g']; sizes=dict{str:'x': int:3, str:'y': int:4}; "
                                      "attrs=dict{str:'level': str:'g'}; encoding=dict{}; indexes=[]; var "
                                      "g={type=Variable; dims=tuple(str:'x', str:'y'); shape=tuple(int:3, "
                                      "int:4); dtype=dtype('int64'); attrs=dict{str:'b': str:'abc'}; "
                                      "encoding=dict{}; in_memory=True; data=['ndarray']; "
                                      'values=ndarray[<i8(3, 4)][[0, 1, 2, 3], [4, 5, 6, 7], [8, 9, 10, '
                                      '11]]; io=[]}}; children /b/inner2/deep=[]} attrs_untouched=True || '
                                      'locks=0 chunk_calls=[] || io=[]',
 'to_dataset relative-path chunks=None keyword': "{type=Dataset; data_vars=['v']; coords=[]; "
                                                 "variables=['v']; sizes=dict{str:'x': int:2}; "
                                                 "attrs=dict{str:'k': int:1}; encoding=dict{}; indexes=[]; "
                                                 "var v={type=Variable; dims=tuple(str:'x'); "
                                                 "shape=tuple(int:2); dtype=dtype('float64'); attrs=dict{}; "
                                                 "encoding=dict{}; in_memory=True; data=['ndarray']; "
                                                 'values=ndarray[<f8(2,)][0.0, 0.0]; io=[]}} '
                                                 'attrs_untouched=True || locks=0 chunk_calls=[] || io=[]',
 'to_datatree relative-path chunks=None keyword': "raise builtins.ValueError: group '/rel/g' is not aligned "
                                                  'with its parents:\n'
                                                  'Group:\n'
                                                  '    Dimensions:  (x: 3, y: 4)\n'
                                                  '    Dimensions without coordinates: x, y\n'
                                                  '    Data variables:\n'
                                                  '        h        (x, y) int64 96B 0 1 2 3 4 5 6 7 8 9 10 '
                                                  '11\n'
                                                  '    Attributes:\n'
                                                  '        level:    h\n'
                                                  'From parents:\n'
                                                  '    Dimensions:  (x: 2)\n'
                                                  '    Dimensions without coordinates: x || locks=0 '
                                                  'chunk_calls=[] || io=[]',
 'to_dataset relative-path chunks=None positional': "{type=Dataset; data_vars=['v']; coords=[]; "
                                                    "variables=['v']; sizes=dict{str:'x': int:2}; "
                                                    "attrs=dict{str:'k': int:1}; encoding=dict{}; "
                                                    "indexes=[]; var v={type=Variable; dims=tuple(str:'x'); "
                                                    "shape=tuple(int:2); dtype=dtype('float64'); "
                                                    'attrs=dict{}; encoding=dict{}; in_memory=True; '
                                                    "data=['ndarray']; values=ndarray[<f8(2,)][0.0, 0.0]; "
                                                    'io=[]}} attrs_untouched=True || locks=0 chunk_calls=[] '
                                                    '|| io=[]',
 'to_datatree relative-path chunks=None positional': "raise builtins.ValueError: group '/rel/g' is not "
                                                     'aligned with its parents:\n'
                                                     'Group:\n'
                                                     '    Dimensions:  (x: 3, y: 4)\n'
                                                     '    Dimensions without coordinates: x, y\n'
                                                     '    Data variables:\n'
                                                     '        h        (x, y) int64 96B 0 1 2 3 4 5 6 7 8 9 '
                                                     '10 11\n'
                                                     '    Attributes:\n'
                                                     '        level:    h\n'
                                                     'From parents:\n'
                                                     '    Dimensions:  (x: 2)\n'
                                                     '    Dimensions without coordinates: x || locks=0 '
                                                     'chunk_calls=[] || io=[]',
 'to_dataset relative-path chunks=x1y2 keyword': "{type=Dataset; data_vars=['v']; coords=[]; "
                                                 "variables=['v']; sizes=dict{str:'x': int:2}; "
                                                 "attrs=dict{str:'k': int:1}; encoding=dict{}; indexes=[]; "
                                                 "var v={type=Variable; dims=tuple(str:'x'); "
                                                 "shape=tuple(int:2); dtype=dtype('float64'); attrs=dict{}; "
                                                 "encoding=dict{}; in_memory=True; data=['ndarray']; "
                                                 'values=ndarray[<f8(2,)][0.0, 0.0]; io=[]}} '
                                                 'attrs_untouched=True || locks=0 '
                                                 'chunk_calls=[("tuple(dict{str:\'x\': int:1})", \'dict{}\', '
                                                 "['v'])] || io=[]",
 'to_datatree relative-path chunks=x1y2 keyword': "raise builtins.ValueError: group '/rel/g' is not aligned "
                                                  'with its parents:\n'
                                                  'Group:\n'
                                                  '    Dimensions:  (x: 3, y: 4)\n'
                                                  '    Dimensions without coordinates: x, y\n'
                                                  '    Data variables:\n'
                                                  '        h        (x, y) int64 96B 0 1 2 3 4 5 6 7 8 9 10 '
                                                  '11\n'
                                                  '    Attributes:\n'
                                                  '        level:    h\n'
                                                  'From parents:\n'
                                                  '    Dimensions:  (x: 2)\n'
                                                  '    Dimensions without coordinates: x || locks=0 '
                                                  'chunk_calls=[("tuple(dict{str:\'x\': int:1})", '
                                                  '\'dict{}\', [\'v\']), ("tuple(dict{str:\'x\': int:1})", '
                                                  '\'dict{}\', [\'v\']), ("tuple(dict{str:\'x\': int:1, '
                                                  'str:\'y\': int:2})", \'dict{}\', [\'h\'])] || io=[]',
 'to_dataset relative-path chunks=rows keyword': "{type=Dataset; data_vars=['v']; coords=[]; "
                                                 "variables=['v']; sizes=dict{str:'x': int:2}; "
                                                 "attrs=dict{str:'k': int:1}; encoding=dict{}; indexes=[]; "
                                                 "var v={type=Variable; dims=tuple(str:'x'); "
                                                 "shape=tuple(int:2); dtype=dtype('float64'); attrs=dict{}; "
                                                 "encoding=dict{}; in_memory=True; data=['ndarray']; "
                                                 'values=ndarray[<f8(2,)][0.0, 0.0]; io=[]}} '
                                                 'attrs_untouched=True || locks=0 '
                                                 "chunk_calls=[('tuple(dict{})', 'dict{}', ['v'])] || io=[]",
 'to_datatree relative-path chunks=rows keyword': "raise builtins.ValueError: group '/rel/g' is not aligned "
                                                  'with its parents:\n'
                                                  'Group:\n'
                                                  '    Dimensions:  (x: 3, y: 4)\n'
                                                  '    Dimensions without coordinates: x, y\n'
                                                  '    Data variables:\n'
                                                  '        h        (x, y) int64 96B 0 1 2 3 4 5 6 7 8 9 10 '
                                                  '11\n'
                                                  '    Attributes:\n'
                                                  '        level:    h\n'
                                                  'From parents:\n'
                                                  '    Dimensions:  (x: 2)\n'
                                                  '    Dimensions without coordinates: x || locks=0 '
                                                  "chunk_calls=[('tuple(dict{})', 'dict{}', ['v']), "
                                                  "('tuple(dict{})', 'dict{}', ['v']), ('tuple(dict{})', "
                                                  "'dict{}', ['h'])] || io=[]",
 'to_dataset relative-path chunks=rows positional': "{type=Dataset; data_vars=['v']; coords=[]; "
                                                    "variables=['v']; sizes=dict{str:'x': int:2}; "
                                                    "attrs=dict{str:'k': int:1}; encoding=dict{}; "
                                                    "indexes=[]; var v={type=Variable; dims=tuple(str:'x'); "
                                                    "shape=tuple(int:2); dtype=dtype('float64'); "
                                                    'attrs=dict{}; encoding=dict{}; in_memory=True; '
                                                    "data=['ndarray']; values=ndarray[<f8(2,)][0.0, 0.0]; "
                                                    'io=[]}} attrs_untouched=True || locks=0 '
                                                    "chunk_calls=[('tuple(dict{})', 'dict{}', ['v'])] || "
                                                    'io=[]',
 'to_datatree relative-path chunks=rows positional': "raise builtins.ValueError: group '/rel/g' is not "
                                                     'aligned with its parents:\n'
                                                     'Group:\n'
                                                     '    Dimensions:  (x: 3, y: 4)\n'
                                                     '    Dimensions without coordinates: x, y\n'
                                                     '    Data variables:\n'
                                                     '        h        (x, y) int64 96B 0 1 2 3 4 5 6 7 8 9 '
                                                     '10 11\n'
                                                     '    Attributes:\n'
                                                     '        level:    h\n'
                                                     'From parents:\n'
                                                     '    Dimensions:  (x: 2)\n'
                                                     '    Dimensions without coordinates: x || locks=0 '
                                                     "chunk_calls=[('tuple(dict{})', 'dict{}', ['v']), "
                                                     "('tuple(dict{})', 'dict{}', ['v']), ('tuple(dict{})', "
                                                     "'dict{}', ['h'])] || io=[]",
 'to_dataset relative-path chunks=-1 keyword': "raise builtins.AttributeError: 'int' object has no attribute "
                                               "'items' || locks=0 chunk_calls=[] || io=[]",
 'to_datatree relative-path chunks=-1 keyword': "raise builtins.AttributeError: 'int' object has no "
                                                "attribute 'items' || locks=0 chunk_calls=[] || io=[]",
 'to_dataset relative-path chunks=-1 positional': "raise builtins.AttributeError: 'int' object has no "
                                                  "attribute 'items' || locks=0 chunk_calls=[] || io=[]",
 'to_datatree relative-path chunks=-1 positional': "raise builtins.AttributeError: 'int' object has no "
                                                   "attribute 'items' || locks=0 chunk_calls=[] || io=[]",
 'to_dataset relative-path default': "{type=Dataset; data_vars=['v']; coords=[]; variables=['v']; "
                                     "sizes=dict{str:'x': int:2}; attrs=dict{str:'k': int:1}; "
                                     'encoding=dict{}; indexes=[]; var v={type=Variable; '
                                     "dims=tuple(str:'x'); shape=tuple(int:2); dtype=dtype('float64'); "
                                     "attrs=dict{}; encoding=dict{}; in_memory=True; data=['ndarray']; "
                                     'values=ndarray[<f8(2,)][0.0, 0.0]; io=[]}} attrs_untouched=True || '
                                     'locks=0 chunk_calls=[] || io=[]',
 'to_datatree relative-path default': "raise builtins.ValueError: group '/rel/g' is not aligned with its "
                                      'parents:\n'
                                      'Group:\n'
                                      '    Dimensions:  (x: 3, y: 4)\n'
                                      '    Dimensions without coordinates: x, y\n'
                                      '    Data variables:\n'
                                      '        h        (x, y) int64 96B 0 1 2 3 4 5 6 7 8 9 10 11\n'
                                      '    Attributes:\n'
                                      '        level:    h\n'
                                      'From parents:\n'
                                      '    Dimensions:  (x: 2)\n'
                                      '    Dimensions without coordinates: x || locks=0 chunk_calls=[] || '
                                      'io=[]',
 'to_dataset nested-bad-child chunks=None keyword': "{type=Dataset; data_vars=['a']; coords=[]; "
                                                    "variables=['a']; sizes=dict{str:'x': int:3}; "
                                                    'attrs=dict{}; encoding=dict{}; indexes=[]; var '
                                                    "a={type=Variable; dims=tuple(str:'x'); "
                                                    "shape=tuple(int:3); dtype=dtype('float64'); "
                                                    'attrs=dict{}; encoding=dict{}; in_memory=True; '
                                                    "data=['ndarray']; values=ndarray[<f8(3,)][0.0, 0.0, "
                                                    '0.0]; io=[]}} attrs_untouched=True || locks=0 '
                                                    'chunk_calls=[] || io=[]',
 'to_datatree nested-bad-child chunks=None keyword': "raise builtins.ValueError: dimensions ('x',) must have "
                                                     'the same length as the number of data dimensions, '
                                                     'ndim=2 || locks=0 chunk_calls=[] || io=[]',
 'to_dataset nested-bad-child chunks=None positional': "{type=Dataset; data_vars=['a']; coords=[]; "
                                                       "variables=['a']; sizes=dict{str:'x': int:3}; "
                                                       'attrs=dict{}; encoding=dict{}; indexes=[]; var '
                                                       "a={type=Variable; dims=tuple(str:'x'); "
                                                       "shape=tuple(int:3); dtype=dtype('float64'); "
                                                       'attrs=dict{}; encoding=dict{}; in_memory=True; '
                                                       "data=['ndarray']; values=ndarray[<f8(3,)][0.0, 0.0, "
                                                       '0.0]; io=[]}} attrs_untouched=True || locks=0 '
                                                       'chunk_calls=[] || io=[]',
 'to_datatree nested-bad-child chunks=None positional': "raise builtins.ValueError: dimensions ('x',) must "
                                                        'have the same length as the number of data '
                                                        'dimensions, ndim=2 || locks=0 chunk_calls=[] || '
                                                        'io=[]',
 'to_dataset nested-bad-child chunks=x1y2 keyword': "{type=Dataset; data_vars=['a']; coords=[]; "
                                                    "variables=['a']; sizes=dict{str:'x': int:3}; "
                                                    'attrs=dict{}; encoding=dict{}; indexes=[]; var '
                                                    "a={type=Variable; dims=tuple(str:'x'); "
                                                    "shape=tuple(int:3); dtype=dtype('float64'); "
                                                    'attrs=dict{}; encoding=dict{}; in_memory=True; '
                                                    "data=['ndarray']; values=ndarray[<f8(3,)][0.0, 0.0, "
                                                    '0.0]; io=[]}} attrs_untouched=True || locks=0 '
                                                    'chunk_calls=[("tuple(dict{str:\'x\': int:1})", '
                                                    "'dict{}', ['a'])] || io=[]",
 'to_datatree nested-bad-child chunks=x1y2 keyword': "raise builtins.ValueError: dimensions ('x',) must have "
                                                     'the same length as the number of data dimensions, '
                                                     'ndim=2 || locks=0 chunk_calls=[("tuple(dict{str:\'x\': '
                                                     'int:1})", \'dict{}\', [\'a\']), '
                                                     '("tuple(dict{str:\'x\': int:1})", \'dict{}\', '
                                                     "['a'])] || io=[]",
 'to_dataset nested-bad-child chunks=rows keyword': "{type=Dataset; data_vars=['a']; coords=[]; "
                                                    "variables=['a']; sizes=dict{str:'x': int:3}; "
                                                    'attrs=dict{}; encoding=dict{}; indexes=[]; var '
                                                    "a={type=Variable; dims=tuple(str:'x'); "
                                                    "shape=tuple(int:3); dtype=dtype('float64'); "
                                                    'attrs=dict{}; encoding=dict{}; in_memory=True; '
                                                    "data=['ndarray']; values=ndarray[<f8(3,)][0.0, 0.0, "
                                                    '0.0]; io=[]}} attrs_untouched=True || locks=0 '
                                                    "chunk_calls=[('tuple(dict{})', 'dict{}', ['a'])] || "
                                                    'io=[]',
 'to_datatree nested-bad-child chunks=rows keyword': "raise builtins.ValueError: dimensions ('x',) must have "
                                                     'the same length as the number of data dimensions, '
                                                     "ndim=2 || locks=0 chunk_calls=[('tuple(dict{})', "
                                                     "'dict{}', ['a']), ('tuple(dict{})', 'dict{}', ['a'])] "
                                                     '|| io=[]',
 'to_dataset nested-bad-child chunks=rows positional': "{type=Dataset; data_vars=['a']; coords=[]; "
                                                       "variables=['a']; sizes=dict{str:'x': int:3}; "
                                                       'attrs=dict{}; encoding=dict{}; indexes=[]; var '
                                                       "a={type=Variable; dims=tuple(str:'x'); "
                                                       "shape=tuple(int:3); dtype=dtype('float64'); "
                                                       'attrs=dict{}; encoding=dict{}; in_memory=True; '
                                                       "data=['ndarray']; values=ndarray[<f8(3,)][0.0, 0.0, "
                                                       '0.0]; io=[]}} attrs_untouched=True || locks=0 '
                                                       "chunk_calls=[('tuple(dict{})', 'dict{}', ['a'])] || "
                                                       'io=[]',
 'to_datatree nested-bad-child chunks=rows positional': "raise builtins.ValueError: dimensions ('x',) must "
                                                        'have the same length as the number of data '
                                                        'dimensions, ndim=2 || locks=0 '
                                                        "chunk_calls=[('tuple(dict{})', 'dict{}', ['a']), "
                                                        "('tuple(dict{})', 'dict{}', ['a'])] || io=[]",
 'to_dataset nested-bad-child chunks=-1 keyword': "raise builtins.AttributeError: 'int' object has no "
                                                  "attribute 'items' || locks=0 chunk_calls=[] || io=[]",
 'to_datatree nested-bad-child chunks=-1 keyword': "raise builtins.AttributeError: 'int' object has no "
                                                   "attribute 'items' || locks=0 chunk_calls=[] || io=[]",
 'to_dataset nested-bad-child chunks=-1 positional': "raise builtins.AttributeError: 'int' object has no "
                                                     "attribute 'items' || locks=0 chunk_calls=[] || io=[]",
 'to_datatree nested-bad-child chunks=-1 positional': "raise builtins.AttributeError: 'int' object has no "
                                                      "attribute 'items' || locks=0 chunk_calls=[] || io=[]",
 'to_dataset nested-bad-child default': "{type=Dataset; data_vars=['a']; coords=[]; variables=['a']; "
                                        "sizes=dict{str:'x': int:3}; attrs=dict{}; encoding=dict{}; "
                                        "indexes=[]; var a={type=Variable; dims=tuple(str:'x'); "
                                        "shape=tuple(int:3); dtype=dtype('float64'); attrs=dict{}; "
                                        "encoding=dict{}; in_memory=True; data=['ndarray']; "
                                        'values=ndarray[<f8(3,)][0.0, 0.0, 0.0]; io=[]}} '
                                        'attrs_untouched=True || locks=0 chunk_calls=[] || io=[]',
 'to_datatree nested-bad-child default': "raise builtins.ValueError: dimensions ('x',) must have the same "
                                         'length as the number of data dimensions, ndim=2 || locks=0 '
                                         'chunk_calls=[] || io=[]',
 'to_dataset nested-index-conflict chunks=None keyword': "{type=Dataset; data_vars=[]; coords=['x']; "
                                                         "variables=['x']; sizes=dict{str:'x': int:3}; "
                                                         "attrs=dict{}; encoding=dict{}; indexes=['x']; var "
                                                         "x={type=IndexVariable; dims=tuple(str:'x'); "
                                                         "shape=tuple(int:3); dtype=dtype('int64'); "
                                                         'attrs=dict{}; encoding=dict{}; in_memory=True; '
                                                         "data=['PandasIndexingAdapter', 'Index', "
                                                         "'NumpyExtensionArray']; values=ndarray[<i8(3,)][0, "
                                                         '1, 2]; io=[]}} attrs_untouched=True || locks=0 '
                                                         'chunk_calls=[] || io=[]',
 'to_datatree nested-index-conflict chunks=None keyword': "raise builtins.ValueError: group '/g' is not "
                                                          'aligned with its parents:\n'
                                                          'Group:\n'
                                                          '    Dimensions:  (x: 4)\n'
                                                          '    Coordinates:\n'
                                                          '      * x        (x) int64 32B 0 1 2 3\n'
                                                          '    Data variables:\n'
                                                          '        *empty*\n'
                                                          'From parents:\n'
                                                          '    Dimensions:  (x: 3)\n'
                                                          '    Coordinates:\n'
                                                          '      * x        (x) int64 24B 0 1 2 || locks=0 '
                                                          'chunk_calls=[] || io=[]',
 'to_dataset nested-index-conflict chunks=None positional': "{type=Dataset; data_vars=[]; coords=['x']; "
                                                            "variables=['x']; sizes=dict{str:'x': int:3}; "
                                                            "attrs=dict{}; encoding=dict{}; indexes=['x']; "
                                                            "var x={type=IndexVariable; dims=tuple(str:'x'); "
                                                            "shape=tuple(int:3); dtype=dtype('int64'); "
                                                            'attrs=dict{}; encoding=dict{}; in_memory=True; '
                                                            "data=['PandasIndexingAdapter', 'Index', "
                                                            "'NumpyExtensionArray']; "
                                                            'values=ndarray[<i8(3,)][0, 1, 2]; io=[]}} '
                                                            'attrs_untouched=True || locks=0 chunk_calls=[] '
                                                            '|| io=[]',
 'to_datatree nested-index-conflict chunks=None positional': "raise builtins.ValueError: group '/g' is not "
                                                             'aligned with its parents:\n'
                                                             'Group:\n'
                                                             '    Dimensions:  (x: 4)\n'
                                                             '    Coordinates:\n'
                                                             '      * x        (x) int64 32B 0 1 2 3\n'
                                                             '    Data variables:\n'
                                                             '        *empty*\n'
                                                             'From parents:\n'
                                                             '    Dimensions:  (x: 3)\n'
                                                             '    Coordinates:\n'
                                                             '      * x        (x) int64 24B 0 1 2 || '
                                                             'locks=0 chunk_calls=[] || io=[]',
 'to_dataset nested-index-conflict chunks=x1y2 keyword': "{type=Dataset; data_vars=[]; coords=['x']; "
                                                         "variables=['x']; sizes=dict{str:'x': int:3}; "
                                                         "attrs=dict{}; encoding=dict{}; indexes=['x']; var "
                                                         "x={type=IndexVariable; dims=tuple(str:'x'); "
                                                         "shape=tuple(int:3); dtype=dtype('int64'); "
                                                         'attrs=dict{}; encoding=dict{}; in_memory=True; '
                                                         "data=['PandasIndexingAdapter', 'Index', "
                                                         "'NumpyExtensionArray']; values=ndarray[<i8(3,)][0, "
                                                         '1, 2]; io=[]}} attrs_untouched=True || locks=0 '
                                                         'chunk_calls=[("tuple(dict{str:\'x\': int:1})", '
                                                         "'dict{}', ['x'])] || io=[]",
 'to_datatree nested-index-conflict chunks=x1y2 keyword': "raise builtins.ValueError: group '/g' is not "
                                                          'aligned with its parents:\n'
                                                          'Group:\n'
                                                          '    Dimensions:  (x: 4)\n'
                                                          '    Coordinates:\n'
                                                          '      * x        (x) int64 32B 0 1 2 3\n'
                                                          '    Data variables:\n'
                                                          '        *empty*\n'
                                                          'From parents:\n'
                                                          '    Dimensions:  (x: 3)\n'
                                                          '    Coordinates:\n'
                                                          '      * x        (x) int64 24B 0 1 2 || locks=0 '
                                                          'chunk_calls=[("tuple(dict{str:\'x\': int:1})", '
                                                          '\'dict{}\', [\'x\']), ("tuple(dict{str:\'x\': '
                                                          'int:1})", \'dict{}\', [\'x\']), '
                                                          '("tuple(dict{str:\'x\': int:1})", \'dict{}\', '
                                                          "['x'])] || io=[]",
 'to_dataset nested-index-conflict chunks=rows keyword': "{type=Dataset; data_vars=[]; coords=['x']; "
                                                         "variables=['x']; sizes=dict{str:'x': int:3}; "
                                                         "attrs=dict{}; encoding=dict{}; indexes=['x']; var "
                                                         "x={type=IndexVariable; dims=tuple(str:'x'); "
                                                         "shape=tuple(int:3); dtype=dtype('int64'); "
                                                         'attrs=dict{}; encoding=dict{}; in_memory=True; '
                                                         "data=['PandasIndexingAdapter', 'Index', "
                                                         "'NumpyExtensionArray']; values=ndarray[<i8(3,)][0, "
                                                         '1, 2]; io=[]}} attrs_untouched=True || locks=0 '
                                                         "chunk_calls=[('tuple(dict{})', 'dict{}', ['x'])] "
                                                         '|| io=[]',
 'to_datatree nested-index-conflict chunks=rows keyword': "raise builtins.ValueError: group '/g' is not "
                                                          'aligned with its parents:\n'
                                                          'Group:\n'
                                                          '    Dimensions:  (x: 4)\n'
                                                          '    Coordinates:\n'
                                                          '      * x        (x) int64 32B 0 1 2 3\n'
                                                          '    Data variables:\n'
                                                          '        *empty*\n'
                                                          'From parents:\n'
                                                          '    Dimensions:  (x: 3)\n'
                                                          '    Coordinates:\n'
                                                          '      * x        (x) int64 24B 0 1 2 || locks=0 '
                                                          "chunk_calls=[('tuple(dict{})', 'dict{}', ['x']), "
                                                          "('tuple(dict{})', 'dict{}', ['x']), "
                                                          "('tuple(dict{})', 'dict{}', ['x'])] || io=[]",
 'to_dataset nested-index-conflict chunks=rows positional': "{type=Dataset; data_vars=[]; coords=['x']; "
                                                            "variables=['x']; sizes=dict{str:'x': int:3}; "
                                                            "attrs=dict{}; encoding=dict{}; indexes=['x']; "
                                                            "var x={type=IndexVariable; dims=tuple(str:'x'); "
                                                            "shape=tuple(int:3); dtype=dtype('int64'); "
                                                            'attrs=dict{}; encoding=dict{}; in_memory=True; '
                                                            "data=['PandasIndexingAdapter', 'Index', "
                                                            "'NumpyExtensionArray']; "
                                                            'values=ndarray[<i8(3,)][0, 1, 2]; io=[]}} '
                                                            'attrs_untouched=True || locks=0 '
                                                            "chunk_calls=[('tuple(dict{})', 'dict{}', "
                                                            "['x'])] || io=[]",
 'to_datatree nested-index-conflict chunks=rows positional': "raise builtins.ValueError: group '/g' is not "
                                                             'aligned with its parents:\n'
                                                             'Group:\n'
                                                             '    Dimensions:  (x: 4)\n'
                                                             '    Coordinates:\n'
                                                             '      * x        (x) int64 32B 0 1 2 3\n'
                                                             '    Data variables:\n'
                                                             '        *empty*\n'
                                                             'From parents:\n'
                                                             '    Dimensions:  (x: 3)\n'
                                                             '    Coordinates:\n'
                                                             '      * x        (x) int64 24B 0 1 2 || '
                                                             "locks=0 chunk_calls=[('tuple(dict{})', "
                                                             "'dict{}', ['x']), ('tuple(dict{})', 'dict{}', "
                                                             "['x']), ('tuple(dict{})', 'dict{}', ['x'])] || "
                                                             'io=[]',
 'to_dataset nested-index-conflict chunks=-1 keyword': "raise builtins.AttributeError: 'int' object has no "
                                                       "attribute 'items' || locks=0 chunk_calls=[] || io=[]",
 'to_datatree nested-index-conflict chunks=-1 keyword': "raise builtins.AttributeError: 'int' object has no "
                                                        "attribute 'items' || locks=0 chunk_calls=[] || "
                                                        'io=[]',
 'to_dataset nested-index-conflict chunks=-1 positional': "raise builtins.AttributeError: 'int' object has "
                                                          "no attribute 'items' || locks=0 chunk_calls=[] || "
                                                          'io=[]',
 'to_datatree nested-index-conflict chunks=-1 positional': "raise builtins.AttributeError: 'int' object has "
                                                           "no attribute 'items' || locks=0 chunk_calls=[] "
                                                           '|| io=[]',
 'to_dataset nested-index-conflict default': "{type=Dataset; data_vars=[]; coords=['x']; variables=['x']; "
                                             "sizes=dict{str:'x': int:3}; attrs=dict{}; encoding=dict{}; "
                                             "indexes=['x']; var x={type=IndexVariable; dims=tuple(str:'x'); "
                                             "shape=tuple(int:3); dtype=dtype('int64'); attrs=dict{}; "
                                             'encoding=dict{}; in_memory=True; '
                                             "data=['PandasIndexingAdapter', 'Index', "
                                             "'NumpyExtensionArray']; values=ndarray[<i8(3,)][0, 1, 2]; "
                                             'io=[]}} attrs_untouched=True || locks=0 chunk_calls=[] || '
                                             'io=[]',
 'to_datatree nested-index-conflict default': "raise builtins.ValueError: group '/g' is not aligned with its "
                                              'parents:\n'
                                              'Group:\n'
                                              '    Dimensions:  (x: 4)\n'
                                              '    Coordinates:\n'
                                              '      * x        (x) int64 32B 0 1 2 3\n'
                                              '    Data variables:\n'
                                              '        *empty*\n'
                                              'From parents:\n'
                                              '    Dimensions:  (x: 3)\n'
                                              '    Coordinates:\n'
                                              '      * x        (x) int64 24B 0 1 2 || locks=0 '
                                              'chunk_calls=[] || io=[]',
 'to_dataset nested-bad-coords-child chunks=None keyword': "{type=Dataset; data_vars=['a']; coords=[]; "
                                                           "variables=['a']; sizes=dict{str:'x': int:3}; "
                                                           'attrs=dict{}; encoding=dict{}; indexes=[]; var '
                                                           "a={type=Variable; dims=tuple(str:'x'); "
                                                           "shape=tuple(int:3); dtype=dtype('float64'); "
                                                           'attrs=dict{}; encoding=dict{}; in_memory=True; '
                                                           "data=['ndarray']; values=ndarray[<f8(3,)][0.0, "
                                                           '0.0, 0.0]; io=[]}} attrs_untouched=True || '
                                                           'locks=0 chunk_calls=[] || io=[]',
 'to_datatree nested-bad-coords-child chunks=None keyword': 'raise builtins.ValueError: These variables '
                                                            "cannot be found in this dataset: ['nope'] || "
                                                            'locks=0 chunk_calls=[] || io=[]',
 'to_dataset nested-bad-coords-child chunks=None positional': "{type=Dataset; data_vars=['a']; coords=[]; "
                                                              "variables=['a']; sizes=dict{str:'x': int:3}; "
                                                              'attrs=dict{}; encoding=dict{}; indexes=[]; '
                                                              "var a={type=Variable; dims=tuple(str:'x'); "
                                                              "shape=tuple(int:3); dtype=dtype('float64'); "
                                                              'attrs=dict{}; encoding=dict{}; '
                                                              "in_memory=True; data=['ndarray']; "
                                                              'values=ndarray[<f8(3,)][0.0, 0.0, 0.0]; '
                                                              'io=[]}} attrs_untouched=True || locks=0 '
                                                              'chunk_calls=[] || io=[]',
 'to_datatree nested-bad-coords-child chunks=None positional': 'raise builtins.ValueError: These variables '
                                                               "cannot be found in this dataset: ['nope'] || "
                                                               'locks=0 chunk_calls=[] || io=[]',
 'to_dataset nested-bad-coords-child chunks=x1y2 keyword': "{type=Dataset; data_vars=['a']; coords=[]; "
                                                           "variables=['a']; sizes=dict{str:'x': int:3}; "
                                                           'attrs=dict{}; encoding=dict{}; indexes=[]; var '
                                                           "a={type=Variable; dims=tuple(str:'x'); "
                                                           "shape=tuple(int:3); dtype=dtype('float64'); "
                                                           'attrs=dict{}; encoding=dict{}; in_memory=True; '
                                                           "data=['ndarray']; values=ndarray[<f8(3,)][0.0, "
                                                           '0.0, 0.0]; io=[]}} attrs_untouched=True || '
                                                           'locks=0 chunk_calls=[("tuple(dict{str:\'x\': '
                                                           'int:1})", \'dict{}\', [\'a\'])] || io=[]',
 'to_datatree nested-bad-coords-child chunks=x1y2 keyword': 'raise builtins.ValueError: These variables '
                                                            "cannot be found in this dataset: ['nope'] || "
                                                            'locks=0 chunk_calls=[("tuple(dict{str:\'x\': '
                                                            'int:1})", \'dict{}\', [\'a\']), '
                                                            '("tuple(dict{str:\'x\': int:1})", \'dict{}\', '
                                                            "['a'])] || io=[]",
 'to_dataset nested-bad-coords-child chunks=rows keyword': "{type=Dataset; data_vars=['a']; coords=[]; "
                                                           "variables=['a']; sizes=dict{str:'x': int:3}; "
                                                           'attrs=dict{}; encoding=dict{}; indexes=[]; var '
                                                           "a={type=Variable; dims=tuple(str:'x'); "
                                                           "shape=tuple(int:3); dtype=dtype('float64'); "
                                                           'attrs=dict{}; encoding=dict{}; in_memory=True; '
                                                           "data=['ndarray']; values=ndarray[<f8(3,)][0.0, "
                                                           '0.0, 0.0]; io=[]}} attrs_untouched=True || '
                                                           "locks=0 chunk_calls=[('tuple(dict{})', 'dict{}', "
                                                           "['a'])] || io=[]",
 'to_datatree nested-bad-coords-child chunks=rows keyword': 'raise builtins.ValueError: These variables '
                                                            "cannot be found in this dataset: ['nope'] || "
                                                            "locks=0 chunk_calls=[('tuple(dict{})', "
                                                            "'dict{}', ['a']), ('tuple(dict{})', 'dict{}', "
                                                            "['a'])] || io=[]",
 'to_dataset nested-bad-coords-child chunks=rows positional': "{type=Dataset; data_vars=['a']; coords=[]; "
                                                              "variables=['a']; sizes=dict{str:'x': int:3}; "
                                                              'attrs=dict{}; encoding=dict{}; indexes=[]; '
                                                              "var a={type=Variable; dims=tuple(str:'x'); "
                                                              "shape=tuple(int:3); dtype=dtype('float64'); "
                                                              'attrs=dict{}; encoding=dict{}; '
                                                              "in_memory=True; data=['ndarray']; "
                                                              'values=ndarray[<f8(3,)][0.0, 0.0, 0.0]; '
                                                              'io=[]}} attrs_untouched=True || locks=0 '
                                                              "chunk_calls=[('tuple(dict{})', 'dict{}', "
                                                              "['a'])] || io=[]",
 'to_datatree nested-bad-coords-child chunks=rows positional': 'raise builtins.ValueError: These variables '
                                                               "cannot be found in this dataset: ['nope'] || "
                                                               "locks=0 chunk_calls=[('tuple(dict{})', "
                                                               "'dict{}', ['a']), ('tuple(dict{})', "
                                                               "'dict{}', ['a'])] || io=[]",
 'to_dataset nested-bad-coords-child chunks=-1 keyword': "raise builtins.AttributeError: 'int' object has no "
                                                         "attribute 'items' || locks=0 chunk_calls=[] || "
                                                         'io=[]',
 'to_datatree nested-bad-coords-child chunks=-1 keyword': "raise builtins.AttributeError: 'int' object has "
                                                          "no attribute 'items' || locks=0 chunk_calls=[] || "
                                                          'io=[]',
 'to_dataset nested-bad-coords-child chunks=-1 positional': "raise builtins.AttributeError: 'int' object has "
                                                            "no attribute 'items' || locks=0 chunk_calls=[] "
                                                            '|| io=[]',
 'to_datatree nested-bad-coords-child chunks=-1 positional': "raise builtins.AttributeError: 'int' object "
                                                             "has no attribute 'items' || locks=0 "
                                                             'chunk_calls=[] || io=[]',
 'to_dataset nested-bad-coords-child default': "{type=Dataset; data_vars=['a']; coords=[]; variables=['a']; "
                                               "sizes=dict{str:'x': int:3}; attrs=dict{}; encoding=dict{}; "
                                               "indexes=[]; var a={type=Variable; dims=tuple(str:'x'); "
                                               "shape=tuple(int:3); dtype=dtype('float64'); attrs=dict{}; "
                                               "encoding=dict{}; in_memory=True; data=['ndarray']; "
                                               'values=ndarray[<f8(3,)][0.0, 0.0, 0.0]; io=[]}} '
                                               'attrs_untouched=True || locks=0 chunk_calls=[] || io=[]',
 'to_datatree nested-bad-coords-child default': 'raise builtins.ValueError: These variables cannot be found '
                                                "in this dataset: ['nope'] || locks=0 chunk_calls=[] || "
                                                'io=[]',
 'to_dataset not-a-group chunks=None keyword': '{type=Dataset; data_vars=[]; coords=[]; variables=[]; '
                                               'sizes=dict{}; attrs=dict{}; encoding=dict{}; indexes=[]} '
                                               'attrs_untouched=True || locks=0 chunk_calls=[] || io=[]',
 'to_datatree not-a-group chunks=None keyword': "raise builtins.AttributeError: 'types.SimpleNamespace' "
                                                "object has no attribute 'subtree' || locks=0 chunk_calls=[] "
                                                '|| io=[]',
 'to_dataset not-a-group chunks=None positional': '{type=Dataset; data_vars=[]; coords=[]; variables=[]; '
                                                  'sizes=dict{}; attrs=dict{}; encoding=dict{}; indexes=[]} '
                                                  'attrs_untouched=True || locks=0 chunk_calls=[] || io=[]',
 'to_datatree not-a-group chunks=None positional': "raise builtins.AttributeError: 'types.SimpleNamespace' "
                                                   "object has no attribute 'subtree' || locks=0 "
                                                   'chunk_calls=[] || io=[]',
 'to_dataset not-a-group chunks=x1y2 keyword': '{type=Dataset; data_vars=[]; coords=[]; variables=[]; '
                                               'sizes=dict{}; attrs=dict{}; encoding=dict{}; indexes=[]} '
                                               'attrs_untouched=True || locks=0 '
                                               "chunk_calls=[('tuple(dict{})', 'dict{}', [])] || io=[]",
 'to_datatree not-a-group chunks=x1y2 keyword': "raise builtins.AttributeError: 'types.SimpleNamespace' "
                                                "object has no attribute 'subtree' || locks=0 "
                                                "chunk_calls=[('tuple(dict{})', 'dict{}', [])] || io=[]",
 'to_dataset not-a-group chunks=rows keyword': '{type=Dataset; data_vars=[]; coords=[]; variables=[]; '
                                               'sizes=dict{}; attrs=dict{}; encoding=dict{}; indexes=[]} '
                                               'attrs_untouched=True || locks=0 '
                                               "chunk_calls=[('tuple(dict{})', 'dict{}', [])] || io=[]",
 'to_datatree not-a-group chunks=rows keyword': "raise builtins.AttributeError: 'types.SimpleNamespace' "
                                                "object has no attribute 'subtree' || locks=0 "
                                                "chunk_calls=[('tuple(dict{})', 'dict{}', [])] || io=[]",
 'to_dataset not-a-group chunks=rows positional': '{type=Dataset; data_vars=[]; coords=[]; variables=[]; '
                                                  'sizes=dict{}; attrs=dict{}; encoding=dict{}; indexes=[]} '
                                                  'attrs_untouched=True || locks=0 '
                                                  "chunk_calls=[('tuple(dict{})', 'dict{}', [])] || io=[]",
 'to_datatree not-a-group chunks=rows positional': "raise builtins.AttributeError: 'types.SimpleNamespace' "
                                                   "object has no attribute 'subtree' || locks=0 "
                                                   "chunk_calls=[('tuple(dict{})', 'dict{}', [])] || io=[]",
 'to_dataset not-a-group chunks=-1 keyword': "raise builtins.AttributeError: 'int' object has no attribute "
                                             "'items' || locks=0 chunk_calls=[] || io=[]",
 'to_datatree not-a-group chunks=-1 keyword': "raise builtins.AttributeError: 'int' object has no attribute "
                                              "'items' || locks=0 chunk_calls=[] || io=[]",
 'to_dataset not-a-group chunks=-1 positional': "raise builtins.AttributeError: 'int' object has no "
                                                "attribute 'items' || locks=0 chunk_calls=[] || io=[]",
 'to_datatree not-a-group chunks=-1 positional': "raise builtins.AttributeError: 'int' object has no "
                                                 "attribute 'items' || locks=0 chunk_calls=[] || io=[]",
 'to_dataset not-a-group default': '{type=Dataset; data_vars=[]; coords=[]; variables=[]; sizes=dict{}; '
                                   'attrs=dict{}; encoding=dict{}; indexes=[]} attrs_untouched=True || '
                                   'locks=0 chunk_calls=[] || io=[]',
 'to_datatree not-a-group default': "raise builtins.AttributeError: 'types.SimpleNamespace' object has no "
                                    "attribute 'subtree' || locks=0 chunk_calls=[] || io=[]",
 'to_dataset None chunks=None keyword': "raise builtins.AttributeError: 'NoneType' object has no attribute "
                                        "'variables' || locks=0 chunk_calls=[] || io=[]",
 'to_datatree None chunks=None keyword': "raise builtins.AttributeError: 'NoneType' object has no attribute "
                                         "'variables' || locks=0 chunk_calls=[] || io=[]",
 'to_dataset None chunks=None positional': "raise builtins.AttributeError: 'NoneType' object has no "
                                           "attribute 'variables' || locks=0 chunk_calls=[] || io=[]",
 'to_datatree None chunks=None positional': "raise builtins.AttributeError: 'NoneType' object has no "
                                            "attribute 'variables' || locks=0 chunk_calls=[] || io=[]",
 'to_dataset None chunks={} keyword': "raise builtins.AttributeError: 'NoneType' object has no attribute "
                                      "'variables' || locks=0 chunk_calls=[] || io=[]",
 'to_datatree None chunks={} keyword': "raise builtins.AttributeError: 'NoneType' object has no attribute "
                                       "'variables' || locks=0 chunk_calls=[] || io=[]",
 'to_dataset None chunks=x1y2 keyword': "raise builtins.AttributeError: 'NoneType' object has no attribute "
                                        "'variables' || locks=0 chunk_calls=[] || io=[]",
 'to_datatree None chunks=x1y2 keyword': "raise builtins.AttributeError: 'NoneType' object has no attribute "
                                         "'variables' || locks=0 chunk_calls=[] || io=[]",
 'to_dataset None chunks=rows keyword': "raise builtins.AttributeError: 'NoneType' object has no attribute "
                                        "'variables' || locks=0 chunk_calls=[] || io=[]",
 'to_datatree None chunks=rows keyword': "raise builtins.AttributeError: 'NoneType' object has no attribute "
                                         "'variables' || locks=0 chunk_calls=[] || io=[]",
 'to_dataset None chunks=rows positional': "raise builtins.AttributeError: 'NoneType' object has no "
                                           "attribute 'variables' || locks=0 chunk_calls=[] || io=[]",
 'to_datatree None chunks=rows positional': "raise builtins.AttributeError: 'NoneType' object has no "
                                            "attribute 'variables' || locks=0 chunk_calls=[] || io=[]",
 'to_dataset None chunks=rows-cols-nope keyword': "raise builtins.AttributeError: 'NoneType' object has no "
                                                  "attribute 'variables' || locks=0 chunk_calls=[] || io=[]",
 'to_datatree None chunks=rows-cols-nope keyword': "raise builtins.AttributeError: 'NoneType' object has no "
                                                   "attribute 'variables' || locks=0 chunk_calls=[] || io=[]",
 'to_dataset None chunks=nope keyword': "raise builtins.AttributeError: 'NoneType' object has no attribute "
                                        "'variables' || locks=0 chunk_calls=[] || io=[]",
 'to_datatree None chunks=nope keyword': "raise builtins.AttributeError: 'NoneType' object has no attribute "
                                         "'variables' || locks=0 chunk_calls=[] || io=[]",
 'to_dataset None chunks=readonly keyword': "raise builtins.AttributeError: 'NoneType' object has no "
                                            "attribute 'variables' || locks=0 chunk_calls=[] || io=[]",
 'to_datatree None chunks=readonly keyword': "raise builtins.AttributeError: 'NoneType' object has no "
                                             "attribute 'variables' || locks=0 chunk_calls=[] || io=[]",
 'to_dataset None chunks=-1 keyword': "raise builtins.AttributeError: 'NoneType' object has no attribute "
                                      "'variables' || locks=0 chunk_calls=[] || io=[]",
 'to_datatree None chunks=-1 keyword': "raise builtins.AttributeError: 'NoneType' object has no attribute "
                                       "'variables' || locks=0 chunk_calls=[] || io=[]",
 'to_dataset None chunks=-1 positional': "raise builtins.AttributeError: 'NoneType' object has no attribute "
                                         "'variables' || locks=0 chunk_calls=[] || io=[]",
 'to_datatree None chunks=-1 positional': "raise builtins.AttributeError: 'NoneType' object has no attribute "
                                          "'variables' || locks=0 chunk_calls=[] || io=[]",
 "to_dataset None chunks='auto' keyword": "raise builtins.AttributeError: 'NoneType' object has no attribute "
                                          "'variables' || locks=0 chunk_calls=[] || io=[]",
 "to_datatree None chunks='auto' keyword": "raise builtins.AttributeError: 'NoneType' object has no "
                                           "attribute 'variables' || locks=0 chunk_calls=[] || io=[]",
 'to_dataset None chunks=0 keyword': "raise builtins.AttributeError: 'NoneType' object has no attribute "
                                     "'variables' || locks=0 chunk_calls=[] || io=[]",
 'to_datatree None chunks=0 keyword': "raise builtins.AttributeError: 'NoneType' object has no attribute "
                                      "'variables' || locks=0 chunk_calls=[] || io=[]",
 'to_dataset None chunks=list keyword': "raise builtins.AttributeError: 'NoneType' object has no attribute "
                                        "'variables' || locks=0 chunk_calls=[] || io=[]",
 'to_datatree None chunks=list keyword': "raise builtins.AttributeError: 'NoneType' object has no attribute "
                                         "'variables' || locks=0 chunk_calls=[] || io=[]",
 'to_dataset None default': "raise builtins.AttributeError: 'NoneType' object has no attribute 'variables' "
                            '|| locks=0 chunk_calls=[] || io=[]',
 'to_datatree None default': "raise builtins.AttributeError: 'NoneType' object has no attribute 'variables' "
                             '|| locks=0 chunk_calls=[] || io=[]',
 'indexing data basic-int': "ndarray[<u2()]24 || io=[('open', ('file-4x6-3-uint16',), {'mode': 'rb'}), "
                            "'enter', ('seek', (16,), {}), ('read', (68,), {}), 'exit']",
 'indexing data basic-slices': "ndarray[<u2(2, 3)][[18, 24, 30], [36, 42, 48]] || io=[('open', "
                               "('file-4x6-3-uint16',), {'mode': 'rb'}), 'enter', ('seek', (16,), {}), "
                               "('read', (68,), {}), 'exit']",
 'indexing data basic-negative-step': 'ndarray[<u2(4, 3)][[69, 63, 57], [51, 45, 39], [33, 27, 21], [15, 9, '
                                      "3]] || io=[('open', ('file-4x6-3-uint16',), {'mode': 'rb'}), 'enter', "
                                      "('seek', (16,), {}), ('read', (68,), {}), ('seek', (100,), {}), "
                                      "('read', (12,), {}), 'exit']",
 'indexing data basic-empty': "ndarray[<u2(0, 6)][] || io=[('open', ('file-4x6-3-uint16',), {'mode': 'rb'}), "
                              "'enter', 'exit']",
 'indexing data outer-lists': "ndarray[<u2(2, 3)][[57, 57, 66], [3, 3, 12]] || io=[('open', "
                              "('file-4x6-3-uint16',), {'mode': 'rb'}), 'enter', ('seek', (16,), {}), "
                              "('read', (68,), {}), ('seek', (100,), {}), ('read', (12,), {}), 'exit']",
 'indexing data outer-array': 'ndarray[<u2(2, 6)][[36, 39, 42, 45, 48, 51], [36, 39, 42, 45, 48, 51]] || '
                              "io=[('open', ('file-4x6-3-uint16',), {'mode': 'rb'}), 'enter', ('seek', "
                              "(16,), {}), ('read', (68,), {}), 'exit']",
 'indexing data vectorized': "ndarray[<u2(3, 3)][[15, 0, 6], [69, 54, 60], [33, 18, 24]] || io=[('open', "
                             "('file-4x6-3-uint16',), {'mode': 'rb'}), 'enter', ('seek', (16,), {}), "
                             "('read', (68,), {}), ('seek', (100,), {}), ('read', (12,), {}), 'exit']",
 'indexing data vectorized-2d': 'raise builtins.IndexError: Unlabeled multi-dimensional array cannot be used '
                                'for indexing: [[0 1]\n'
                                ' [3 2]] || io=[]',
 'indexing data lazy-then-index': "ndarray[<u2(4,)][24, 27, 30, 33] || io=[('open', ('file-4x6-3-uint16',), "
                                  "{'mode': 'rb'}), 'enter', ('seek', (16,), {}), ('read', (68,), {}), "
                                  "'exit']",
 'indexing data transposed': "ndarray[<u2(2, 4)][[3, 21, 39, 57], [6, 24, 42, 60]] || io=[('open', "
                             "('file-4x6-3-uint16',), {'mode': 'rb'}), 'enter', ('seek', (16,), {}), "
                             "('read', (68,), {}), ('seek', (100,), {}), ('read', (12,), {}), 'exit']",
 'indexing data out-of-bounds': 'raise builtins.IndexError: list index out of range || io=[]',
 'indexing data all': 'ndarray[<u2(4, 6)][[0, 3, 6, 9, 12, 15], [18, 21, 24, 27, 30, 33], [36, 39, 42, 45, '
                      "48, 51], [54, 57, 60, 63, 66, 69]] || io=[('open', ('file-4x6-3-uint16',), {'mode': "
                      "'rb'}), 'enter', ('seek', (16,), {}), ('read', (68,), {}), ('seek', (100,), {}), "
                      "('read', (12,), {}), 'exit']",
 'indexing other basic-int': "ndarray[<u2()]24 || io=[('open', ('second',), {'mode': 'rb'}), 'enter', "
                             "('seek', (44,), {}), ('read', (12,), {}), 'exit']",
 'indexing other basic-slices': "ndarray[<u2(2, 3)][[18, 24, 30], [36, 42, 48]] || io=[('open', ('second',), "
                                "{'mode': 'rb'}), 'enter', ('seek', (44,), {}), ('read', (12,), {}), "
                                "('seek', (72,), {}), ('read', (12,), {}), 'exit']",
 'indexing other basic-negative-step': 'ndarray[<u2(4, 3)][[69, 63, 57], [51, 45, 39], [33, 27, 21], [15, 9, '
                                       "3]] || io=[('open', ('second',), {'mode': 'rb'}), 'enter', ('seek', "
                                       "(16,), {}), ('read', (12,), {}), ('seek', (44,), {}), ('read', "
                                       "(12,), {}), ('seek', (72,), {}), ('read', (12,), {}), ('seek', "
                                       "(100,), {}), ('read', (12,), {}), 'exit']",
 'indexing other basic-empty': "ndarray[<u2(0, 6)][] || io=[('open', ('second',), {'mode': 'rb'}), 'enter', "
                               "'exit']",
 'indexing other outer-lists': "ndarray[<u2(2, 3)][[57, 57, 66], [3, 3, 12]] || io=[('open', ('second',), "
                               "{'mode': 'rb'}), 'enter', ('seek', (16,), {}), ('read', (12,), {}), ('seek', "
                               "(44,), {}), ('read', (12,), {}), ('seek', (72,), {}), ('read', (12,), {}), "
                               "('seek', (100,), {}), ('read', (12,), {}), 'exit']",
 'indexing other outer-array': 'ndarray[<u2(2, 6)][[36, 39, 42, 45, 48, 51], [36, 39, 42, 45, 48, 51]] || '
                               "io=[('open', ('second',), {'mode': 'rb'}), 'enter', ('seek', (72,), {}), "
                               "('read', (12,), {}), 'exit']",
 'indexing other vectorized': "ndarray[<u2(3, 3)][[15, 0, 6], [69, 54, 60], [33, 18, 24]] || io=[('open', "
                              "('second',), {'mode': 'rb'}), 'enter', ('seek', (16,), {}), ('read', (12,), "
                              "{}), ('seek', (44,), {}), ('read', (12,), {}), ('seek', (72,), {}), ('read', "
                              "(12,), {}), ('seek', (100,), {}), ('read', (12,), {}), 'exit']",
 'indexing other vectorized-2d': 'raise builtins.IndexError: Unlabeled multi-dimensional array cannot be '
                                 'used for indexing: [[0 1]\n'
                                 ' [3 2]] || io=[]',
 'indexing other lazy-then-index': "ndarray[<u2(4,)][24, 27, 30, 33] || io=[('open', ('second',), {'mode': "
                                   "'rb'}), 'enter', ('seek', (44,), {}), ('read', (12,), {}), 'exit']",
 'indexing other transposed': "ndarray[<u2(2, 4)][[3, 21, 39, 57], [6, 24, 42, 60]] || io=[('open', "
                              "('second',), {'mode': 'rb'}), 'enter', ('seek', (16,), {}), ('read', (12,), "
                              "{}), ('seek', (44,), {}), ('read', (12,), {}), ('seek', (72,), {}), ('read', "
                              "(12,), {}), ('seek', (100,), {}), ('read', (12,), {}), 'exit']",
 'indexing other out-of-bounds': 'raise builtins.IndexError: list index out of range || io=[]',
 'indexing other all': 'ndarray[<u2(4, 6)][[0, 3, 6, 9, 12, 15], [18, 21, 24, 27, 30, 33], [36, 39, 42, 45, '
                       "48, 51], [54, 57, 60, 63, 66, 69]] || io=[('open', ('second',), {'mode': 'rb'}), "
                       "'enter', ('seek', (16,), {}), ('read', (12,), {}), ('seek', (44,), {}), ('read', "
                       "(12,), {}), ('seek', (72,), {}), ('read', (12,), {}), ('seek', (100,), {}), ('read', "
                       "(12,), {}), 'exit']",
 'indexing meta out-of-bounds': "ndarray[<u2(3, 1)][[0], [3], [6]] || io=[('open', ('file-4-2-uint16',), "
                                "{'mode': 'rb'}), 'enter', ('seek', (16,), {}), ('read', (20,), {}), "
                                "('seek', (52,), {}), ('read', (20,), {}), 'exit']",
 'indexing meta all': "ndarray[<u2(3, 1)][[0], [3], [6]] || io=[('open', ('file-4-2-uint16',), {'mode': "
                      "'rb'}), 'enter', ('seek', (16,), {}), ('read', (20,), {}), ('seek', (52,), {}), "
                      "('read', (20,), {}), 'exit']",
 'open_alos2 chunks=None': "{type=DataTree; paths=['/', '/imagery', '/imagery/HH', '/imagery/HV']; node "
                           "/={type=Dataset; data_vars=['overview']; coords=[]; variables=['overview']; "
                           "sizes=dict{str:'rows': int:4, str:'cols': int:6}; attrs=dict{str:'mission': "
                           "str:'ALOS2'}; encoding=dict{}; indexes=[]; var overview={type=Variable; "
                           "dims=tuple(str:'rows', str:'cols'); shape=tuple(int:4, int:6); "
                           "dtype=dtype('uint16'); attrs=dict{}; encoding=dict{str:'preferred_chunksizes': "
                           "dict{str:'rows': int:1, str:'cols': int:6}}; in_memory=False; "
                           "data=['LazilyIndexedArray', 'LazilyIndexedWrapper', 'Array']; "
                           'wrapper=(\'tuple(int:4, int:6)\', "dtype(\'uint16\')", \'SerializableLock\', '
                           "'Array'); values=ndarray[<u2(4, 6)][[0, 3, 6, 9, 12, 15], [18, 21, 24, 27, 30, "
                           "33], [36, 39, 42, 45, 48, 51], [54, 57, 60, 63, 66, 69]]; io=[('open', "
                           "('overview',), {'mode': 'rb'}), 'enter', ('seek', (16,), {}), ('read', (12,), "
                           "{}), ('seek', (44,), {}), ('read', (12,), {}), ('seek', (72,), {}), ('read', "
                           "(12,), {}), ('seek', (100,), {}), ('read', (12,), {}), 'exit']}}; children "
                           "/=['imagery']; node /imagery={type=Dataset; data_vars=[]; coords=[]; "
                           'variables=[]; sizes=dict{}; attrs=dict{}; encoding=dict{}; indexes=[]}; children '
                           "/imagery=['HH', 'HV']; node /imagery/HH={type=Dataset; data_vars=['data']; "
                           "coords=[]; variables=['data']; sizes=dict{str:'rows': int:4, str:'cols': int:6}; "
                           "attrs=dict{str:'polarization': str:'HH'}; encoding=dict{}; indexes=[]; var "
                           "data={type=Variable; dims=tuple(str:'rows', str:'cols'); shape=tuple(int:4, "
                           "int:6); dtype=dtype('uint16'); attrs=dict{}; "
                           "encoding=dict{str:'preferred_chunksizes': dict{str:'rows': int:2, str:'cols': "
                           "int:6}}; in_memory=False; data=['LazilyIndexedArray', 'LazilyIndexedWrapper', "
                           '\'Array\']; wrapper=(\'tuple(int:4, int:6)\', "dtype(\'uint16\')", '
                           "'SerializableLock', 'Array'); values=ndarray[<u2(4, 6)][[0, 3, 6, 9, 12, 15], "
                           '[18, 21, 24, 27, 30, 33], [36, 39, 42, 45, 48, 51], [54, 57, 60, 63, 66, 69]]; '
                           "io=[('open', ('hh',), {'mode': 'rb'}), 'enter', ('seek', (16,), {}), ('read', "
                           "(40,), {}), ('seek', (72,), {}), ('read', (40,), {}), 'exit']}}; children "
                           "/imagery/HH=[]; node /imagery/HV={type=Dataset; data_vars=['data']; coords=[]; "
                           "variables=['data']; sizes=dict{str:'rows': int:4, str:'cols': int:6}; "
                           "attrs=dict{str:'polarization': str:'HV'}; encoding=dict{}; indexes=[]; var "
                           "data={type=Variable; dims=tuple(str:'rows', str:'cols'); shape=tuple(int:4, "
                           "int:6); dtype=dtype('uint16'); attrs=dict{}; "
                           "encoding=dict{str:'preferred_chunksizes': dict{str:'rows': int:4, str:'cols': "
                           "int:6}}; in_memory=False; data=['LazilyIndexedArray', 'LazilyIndexedWrapper', "
                           '\'Array\']; wrapper=(\'tuple(int:4, int:6)\', "dtype(\'uint16\')", '
                           "'SerializableLock', 'Array'); values=ndarray[<u2(4, 6)][[0, 3, 6, 9, 12, 15], "
                           '[18, 21, 24, 27, 30, 33], [36, 39, 42, 45, 48, 51], [54, 57, 60, 63, 66, 69]]; '
                           "io=[('open', ('hv',), {'mode': 'rb'}), 'enter', ('seek', (16,), {}), ('read', "
                           "(96,), {}), 'exit']}}; children /imagery/HV=[]} attrs_untouched=True || locks=4 "
                           'chunk_calls=[] || io=[]',
 'open_alos2 chunks=rows': "{type=DataTree; paths=['/', '/imagery', '/imagery/HH', '/imagery/HV']; node "
                           "/={type=Dataset; data_vars=['overview']; coords=[]; variables=['overview']; "
                           "sizes=dict{str:'rows': int:4, str:'cols': int:6}; attrs=dict{str:'mission': "
                           "str:'ALOS2'}; encoding=dict{}; indexes=[]; var overview={type=Variable; "
                           "dims=tuple(str:'rows', str:'cols'); shape=tuple(int:4, int:6); "
                           "dtype=dtype('uint16'); attrs=dict{}; encoding=dict{str:'preferred_chunksizes': "
                           "dict{str:'rows': int:1, str:'cols': int:6}}; in_memory=False; "
                           "data=['LazilyIndexedArray', 'LazilyIndexedWrapper', 'Array']; "
                           'wrapper=(\'tuple(int:4, int:6)\', "dtype(\'uint16\')", \'SerializableLock\', '
                           "'Array'); values=ndarray[<u2(4, 6)][[0, 3, 6, 9, 12, 15], [18, 21, 24, 27, 30, "
                           "33], [36, 39, 42, 45, 48, 51], [54, 57, 60, 63, 66, 69]]; io=[('open', "
                           "('overview',), {'mode': 'rb'}), 'enter', ('seek', (16,), {}), ('read', (12,), "
                           "{}), ('seek', (44,), {}), ('read', (12,), {}), ('seek', (72,), {}), ('read', "
                           "(12,), {}), ('seek', (100,), {}), ('read', (12,), {}), 'exit']}}; children "
                           "/=['imagery']; node /imagery={type=Dataset; data_vars=[]; coords=[]; "
                           'variables=[]; sizes=dict{}; attrs=dict{}; encoding=dict{}; indexes=[]}; children '
                           "/imagery=['HH', 'HV']; node /imagery/HH={type=Dataset; data_vars=['data']; "
                           "coords=[]; variables=['data']; sizes=dict{str:'rows': int:4, str:'cols': int:6}; "
                           "attrs=dict{str:'polarization': str:'HH'}; encoding=dict{}; indexes=[]; var "
                           "data={type=Variable; dims=tuple(str:'rows', str:'cols'); shape=tuple(int:4, "
                           "int:6); dtype=dtype('uint16'); attrs=dict{}; "
                           "encoding=dict{str:'preferred_chunksizes': dict{str:'rows': int:2, str:'cols': "
                           "int:6}}; in_memory=False; data=['LazilyIndexedArray', 'LazilyIndexedWrapper', "
                           '\'Array\']; wrapper=(\'tuple(int:4, int:6)\', "dtype(\'uint16\')", '
                           "'SerializableLock', 'Array'); values=ndarray[<u2(4, 6)][[0, 3, 6, 9, 12, 15], "
                           '[18, 21, 24, 27, 30, 33], [36, 39, 42, 45, 48, 51], [54, 57, 60, 63, 66, 69]]; '
                           "io=[('open', ('hh',), {'mode': 'rb'}), 'enter', ('seek', (16,), {}), ('read', "
                           "(40,), {}), ('seek', (72,), {}), ('read', (40,), {}), 'exit']}}; children "
                           "/imagery/HH=[]; node /imagery/HV={type=Dataset; data_vars=['data']; coords=[]; "
                           "variables=['data']; sizes=dict{str:'rows': int:4, str:'cols': int:6}; "
                           "attrs=dict{str:'polarization': str:'HV'}; encoding=dict{}; indexes=[]; var "
                           "data={type=Variable; dims=tuple(str:'rows', str:'cols'); shape=tuple(int:4, "
                           "int:6); dtype=dtype('uint16'); attrs=dict{}; "
                           "encoding=dict{str:'preferred_chunksizes': dict{str:'rows': int:4, str:'cols': "
                           "int:6}}; in_memory=False; data=['LazilyIndexedArray', 'LazilyIndexedWrapper', "
                           '\'Array\']; wrapper=(\'tuple(int:4, int:6)\', "dtype(\'uint16\')", '
                           "'SerializableLock', 'Array'); values=ndarray[<u2(4, 6)][[0, 3, 6, 9, 12, 15], "
                           '[18, 21, 24, 27, 30, 33], [36, 39, 42, 45, 48, 51], [54, 57, 60, 63, 66, 69]]; '
                           "io=[('open', ('hv',), {'mode': 'rb'}), 'enter', ('seek', (16,), {}), ('read', "
                           "(96,), {}), 'exit']}}; children /imagery/HV=[]} attrs_untouched=True || locks=4 "
                           'chunk_calls=[("tuple(dict{str:\'rows\': int:2})", \'dict{}\', [\'overview\']), '
                           '("tuple(dict{str:\'rows\': int:2})", \'dict{}\', [\'overview\']), '
                           '(\'tuple(dict{})\', \'dict{}\', []), ("tuple(dict{str:\'rows\': int:2})", '
                           '\'dict{}\', [\'data\']), ("tuple(dict{str:\'rows\': int:2})", \'dict{}\', '
                           "['data'])] || io=[]",
 'open_alos2 chunks={}': "{type=DataTree; paths=['/', '/imagery', '/imagery/HH', '/imagery/HV']; node "
                         "/={type=Dataset; data_vars=['overview']; coords=[]; variables=['overview']; "
                         "sizes=dict{str:'rows': int:4, str:'cols': int:6}; attrs=dict{str:'mission': "
                         "str:'ALOS2'}; encoding=dict{}; indexes=[]; var overview={type=Variable; "
                         "dims=tuple(str:'rows', str:'cols'); shape=tuple(int:4, int:6); "
                         "dtype=dtype('uint16'); attrs=dict{}; encoding=dict{str:'preferred_chunksizes': "
                         "dict{str:'rows': int:1, str:'cols': int:6}}; in_memory=False; "
                         "data=['LazilyIndexedArray', 'LazilyIndexedWrapper', 'Array']; "
                         'wrapper=(\'tuple(int:4, int:6)\', "dtype(\'uint16\')", \'SerializableLock\', '
                         "'Array'); values=ndarray[<u2(4, 6)][[0, 3, 6, 9, 12, 15], [18, 21, 24, 27, 30, "
                         "33], [36, 39, 42, 45, 48, 51], [54, 57, 60, 63, 66, 69]]; io=[('open', "
                         "('overview',), {'mode': 'rb'}), 'enter', ('seek', (16,), {}), ('read', (12,), {}), "
                         "('seek', (44,), {}), ('read', (12,), {}), ('seek', (72,), {}), ('read', (12,), "
                         "{}), ('seek', (100,), {}), ('read', (12,), {}), 'exit']}}; children /=['imagery']; "
                         'node /imagery={type=Dataset; data_vars=[]; coords=[]; variables=[]; sizes=dict{}; '
                         "attrs=dict{}; encoding=dict{}; indexes=[]}; children /imagery=['HH', 'HV']; node "
                         "/imagery/HH={type=Dataset; data_vars=['data']; coords=[]; variables=['data']; "
                         "sizes=dict{str:'rows': int:4, str:'cols': int:6}; attrs=dict{str:'polarization': "
                         "str:'HH'}; encoding=dict{}; indexes=[]; var data={type=Variable; "
                         "dims=tuple(str:'rows', str:'cols'); shape=tuple(int:4, int:6); "
                         "dtype=dtype('uint16'); attrs=dict{}; encoding=dict{str:'preferred_chunksizes': "
                         "dict{str:'rows': int:2, str:'cols': int:6}}; in_memory=False; "
                         "data=['LazilyIndexedArray', 'LazilyIndexedWrapper', 'Array']; "
                         'wrapper=(\'tuple(int:4, int:6)\', "dtype(\'uint16\')", \'SerializableLock\', '
                         "'Array'); values=ndarray[<u2(4, 6)][[0, 3, 6, 9, 12, 15], [18, 21, 24, 27, 30, "
                         "33], [36, 39, 42, 45, 48, 51], [54, 57, 60, 63, 66, 69]]; io=[('open', ('hh',), "
                         "{'mode': 'rb'}), 'enter', ('seek', (16,), {}), ('read', (40,), {}), ('seek', "
                         "(72,), {}), ('read', (40,), {}), 'exit']}}; children /imagery/HH=[]; node "
                         "/imagery/HV={type=Dataset; data_vars=['data']; coords=[]; variables=['data']; "
                         "sizes=dict{str:'rows': int:4, str:'cols': int:6}; attrs=dict{str:'polarization': "
                         "str:'HV'}; encoding=dict{}; indexes=[]; var data={type=Variable; "
                         "dims=tuple(str:'rows', str:'cols'); shape=tuple(int:4, int:6); "
                         "dtype=dtype('uint16'); attrs=dict{}; encoding=dict{str:'preferred_chunksizes': "
                         "dict{str:'rows': int:4, str:'cols': int:6}}; in_memory=False; "
                         "data=['LazilyIndexedArray', 'LazilyIndexedWrapper', 'Array']; "
                         'wrapper=(\'tuple(int:4, int:6)\', "dtype(\'uint16\')", \'SerializableLock\', '
                         "'Array'); values=ndarray[<u2(4, 6)][[0, 3, 6, 9, 12, 15], [18, 21, 24, 27, 30, "
                         "33], [36, 39, 42, 45, 48, 51], [54, 57, 60, 63, 66, 69]]; io=[('open', ('hv',), "
                         "{'mode': 'rb'}), 'enter', ('seek', (16,), {}), ('read', (96,), {}), 'exit']}}; "
                         'children /imagery/HV=[]} attrs_untouched=True || locks=4 '
                         "chunk_calls=[('tuple(dict{})', 'dict{}', ['overview']), ('tuple(dict{})', "
                         "'dict{}', ['overview']), ('tuple(dict{})', 'dict{}', []), ('tuple(dict{})', "
                         "'dict{}', ['data']), ('tuple(dict{})', 'dict{}', ['data'])] || io=[]",
 'open_alos2 calls': "[(('path/to/product',), {'records_per_chunk': 7, 'use_cache': False}), "
                     "(('path/to/product',), {'records_per_chunk': 7, 'use_cache': False}), "
                     "(('path/to/product',), {'records_per_chunk': 7, 'use_cache': False})]"}


def compare(actual, expected):
    problems = []
    for key in expected.keys() - actual.keys():
        problems.append(f"missing case: {key}")
    for key in actual.keys() - expected.keys():
        problems.append(f"unexpected case: {key}")
    for key in actual.keys() & expected.keys():
        if actual[key] != expected[key]:
            problems.append(f"{key}:\n  expected {expected[key]}\n  actual   {actual[key]}")
    return sorted(problems)


def test_equivalence():
    problems = compare(collect(), EXPECTED)
    assert not problems, "\n".join(problems)


if __name__ == "__main__":
    if "--record" in sys.argv:
        pprint.pprint(collect(), width=110, sort_dicts=False)
        sys.exit(0)

    problems = compare(collect(), EXPECTED)
    for problem in problems:
        print(problem)
    print(f"{len(EXPECTED)} recorded cases, {len(problems)} mismatches")
    sys.exit(1 if problems else 0)
