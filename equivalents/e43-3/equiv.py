"""Equivalence check for refactoring 3 (caching/decoders.py: postprocess,
decode_datetime, decode_array).

Run: cd /tmp/wt6/e43 && PYTHONPATH=/tmp/wt6/e43 /venv/bin/python _eq/3/equiv.py
The expectations in EXPECTED were recorded from the unchanged code (HEAD); the
script must pass both with and without patch.diff applied.
"""
import collections
import json
import pathlib
import sys
import warnings

import numpy as np

warnings.simplefilter("ignore")


def canon(obj):
    """Deterministic, type-aware description of a result."""
    from ceos_alos2.array import Array
    from ceos_alos2.hierarchy import Group, Variable

    if isinstance(obj, Group):
        return [
            "Group",
            canon(obj.path),
            canon(obj.url),
            canon(obj.attrs),
            [type(obj.data).__name__, [[canon(k), canon(v)] for k, v in obj.data.items()]],
        ]
    if isinstance(obj, Variable):
        return ["Variable", canon(obj.dims), canon(obj.data), canon(obj.attrs)]
    if isinstance(obj, Array):
        return [
            "Array",
            type(obj.fs).__name__,
            canon(getattr(obj.fs, "path", None)),
            type(getattr(obj.fs, "fs", None)).__name__,
            canon(obj.url),
            canon(obj.byte_ranges),
            canon(obj.shape),
            canon(obj.dtype),
            canon(obj.type_code),
            canon(obj.records_per_chunk),
            canon(obj.chunk_offsets),
        ]
    if isinstance(obj, np.ndarray):
        flat = obj.ravel()
        if obj.dtype.kind in "mM":
            items = [[str(v), int(v.astype("int64"))] for v in flat]
        else:
            items = [canon(v) for v in flat.tolist()]
        return ["ndarray", str(obj.dtype), list(obj.shape), items]
    if isinstance(obj, np.generic):
        return [type(obj).__name__, str(obj)]
    if isinstance(obj, dict):
        return [type(obj).__name__, [[canon(k), canon(v)] for k, v in obj.items()]]
    if isinstance(obj, (list, tuple)):
        return [type(obj).__name__, [canon(v) for v in obj]]
    if isinstance(obj, pathlib.PurePath):
        return [type(obj).__name__, str(obj)]
    if isinstance(obj, BaseException):
        return ["exc", type(obj).__name__, str(obj)]
    if obj is None or isinstance(obj, (bool, int, float, str, bytes)):
        return [type(obj).__name__, repr(obj)]
    return ["other", type(obj).__name__, repr(obj)]


def outcome(thunk):
    try:
        result = thunk()
    except BaseException as e:  # noqa: B902
        chain = []
        cur = e
        while cur is not None:
            chain.append([type(cur).__name__, str(cur)])
            cur = cur.__cause__
        return ["raised", chain]
    return ["returned", canon(result)]


def main(cases, expected_text):
    actual = {name: outcome(thunk) for name, thunk in cases().items()}
    if "--record" in sys.argv:
        lines = [f" {json.dumps(name)}: {json.dumps(actual[name])}" for name in sorted(actual)]
        print("{\n" + ",\n".join(lines) + "\n}")
        return
    expected = json.loads(expected_text)
    assert sorted(actual) == sorted(expected), (sorted(actual), sorted(expected))
    failures = [name for name in actual if json.loads(json.dumps(actual[name])) != expected[name]]
    for name in failures:
        print("MISMATCH", name, "\n  expected:", expected[name], "\n  actual:  ", actual[name])
    assert not failures, failures
    print(f"OK: {len(actual)} cases identical to the recorded behaviour")


class LoggingDict(dict):
    """dict that records the order in which keys are requested"""

    def __init__(self, *args, **kwargs):
        super().__init__(*args, **kwargs)
        self.log = []

    def __getitem__(self, key):
        self.log.append(("getitem", key))
        return super().__getitem__(key)

    def get(self, key, default=None):
        self.log.append(("get", key))
        return super().get(key, default)


def cases():
    from ceos_alos2.sar_image import caching
    from ceos_alos2.sar_image.caching import decoders as dec

    c = {}

    # postprocess
    objs = {
        "tuple": {"__type__": "tuple", "data": [1, 2]},
        "tuple-empty": {"__type__": "tuple", "data": []},
        "tuple-nested-list": {"__type__": "tuple", "data": [[1], (2,)]},
        "tuple-extra-keys": {"__type__": "tuple", "data": [1], "more": 2},
        "tuple-from-str": {"__type__": "tuple", "data": "abc"},
        "tuple-from-dict": {"__type__": "tuple", "data": {"a": 1, "b": 2}},
        "tuple-no-data": {"__type__": "tuple"},
        "tuple-data-int": {"__type__": "tuple", "data": 5},
        "tuple-data-none": {"__type__": "tuple", "data": None},
        "array": {"__type__": "array", "data": [1]},
        "other-type": {"__type__": "Tuple", "data": [1]},
        "type-none": {"__type__": None, "data": [1]},
        "type-list": {"__type__": ["tuple"], "data": [1]},
        "type-tuple": {"__type__": ("tuple",), "data": [1]},
        "type-int": {"__type__": 0, "data": [1]},
        "type-bytes": {"__type__": b"tuple", "data": [1]},
        "no-type": {"data": [1, 2]},
        "empty": {},
        "ordered": collections.OrderedDict([("__type__", "tuple"), ("data", [3, 4])]),
    }
    for name, obj in objs.items():
        c[f"postprocess-{name}"] = lambda obj=obj: dec.postprocess(obj)
    c["postprocess-identity"] = lambda: [
        dec.postprocess(o) is o for o in (objs["array"], objs["empty"], objs["no-type"])
    ]
    c["postprocess-list"] = lambda: dec.postprocess([1, 2])
    c["postprocess-none"] = lambda: dec.postprocess(None)

    def postprocess_access_order():
        ok = LoggingDict({"__type__": "tuple", "data": [1]})
        other = LoggingDict({"__type__": "group", "data": [1]})
        return [dec.postprocess(ok), ok.log, dec.postprocess(other) is other, other.log]

    c["postprocess-access-order"] = postprocess_access_order

    for name, text in {
        "tuple": '{"__type__": "tuple", "data": [1, [2], {"__type__": "tuple", "data": []}]}',
        "nested": '{"a": {"__type__": "tuple", "data": [{"b": {"__type__": "tuple", "data": [1]}}]}}',
        "plain": '{"a": [1, 2], "b": null}',
        "broken-tuple": '{"a": {"__type__": "tuple"}}',
        "scalar-tuple": '{"a": {"__type__": "tuple", "data": 1.5}}',
        "list-type": '{"__type__": ["tuple"], "data": [1]}',
    }.items():
        c[f"json-hook-{name}"] = lambda text=text: json.loads(text, object_hook=dec.postprocess)

    # decode_datetime
    def dt(dtype, reference, units, data):
        return {
            "__type__": "array",
            "dtype": dtype,
            "data": data,
            "encoding": {"reference": reference, "units": units},
        }

    dts = {
        "s": dt("datetime64[s]", "2019-01-01T00:00:00", "s", [0, 31536000]),
        "ms": dt("datetime64[ms]", "2019-01-01T00:01:00.000", "ms", [0, 86460000, -61000]),
        "ns": dt("datetime64[ns]", "2019-01-01T00:00:00.000000000", "ns", [0, 1, 2]),
        "D": dt("datetime64[D]", "2020-02-28", "D", [0, 1, 2]),
        "25s": dt("datetime64[25s]", "2019-01-01T00:00:50", "25s", [0, 3458, -3]),
        "10ms": dt("datetime64[10ms]", "2019-01-01T00:01:00.000", "10ms", [0, 8646000]),
        "units-coarser-than-dtype": dt("datetime64[ms]", "2019-01-01T00:00:00", "s", [0, 1, 2]),
        "units-finer-than-dtype": dt("datetime64[s]", "2019-01-01T00:00:00", "ms", [0, 1500]),
        "empty": dt("datetime64[s]", "2019-01-01T00:00:00", "s", []),
        "scalar-data": dt("datetime64[s]", "2019-01-01T00:00:00", "s", 5),
        "2d": dt("datetime64[h]", "2020-01-01T00", "h", [[0], [48]]),
        "nat-reference": dt("datetime64[s]", "NaT", "s", [0, 1]),
        "nat-offset": dt("datetime64[s]", "2020-01-01T00:00:00", "s", [0, -9223372036854775808]),
        "float-offsets": dt("datetime64[s]", "2020-01-01T00:00:00", "s", [0.0, 1.5]),
        "str-offsets": dt("datetime64[s]", "2020-01-01T00:00:00", "s", ["a"]),
        "bad-units": dt("datetime64[s]", "2020-01-01T00:00:00", "parsec", [0]),
        "int-units": dt("datetime64[s]", "2020-01-01T00:00:00", 5, [0]),
        "none-units": dt("datetime64[s]", "2020-01-01T00:00:00", None, [0]),
        "bad-reference": dt("datetime64[s]", "yesterday", "s", [0]),
        "int-dtype": dt("int64", "5", "s", [0, 1]),
        "timedelta-dtype": dt("timedelta64[s]", 5, "s", [0, 1]),
        "bad-dtype": dt("datetime65[s]", "2020-01-01", "s", [0]),
        "dtype-object": dt(np.dtype("datetime64[us]"), "2020-01-01", "us", [7]),
    }
    for name, obj in dts.items():
        c[f"datetime-{name}"] = lambda obj=obj: dec.decode_datetime(obj)

    for missing in ["encoding", "dtype", "data"]:
        obj = {k: v for k, v in dts["s"].items() if k != missing}
        c[f"datetime-missing-{missing}"] = lambda obj=obj: dec.decode_datetime(obj)
    c["datetime-missing-reference"] = lambda: dec.decode_datetime(
        {"dtype": "datetime64[s]", "data": [0], "encoding": {"units": "s"}}
    )
    c["datetime-missing-units"] = lambda: dec.decode_datetime(
        {"dtype": "datetime64[s]", "data": [0], "encoding": {"reference": "2020-01-01"}}
    )
    c["datetime-missing-everything"] = lambda: dec.decode_datetime({})
    c["datetime-empty-encoding"] = lambda: dec.decode_datetime({"encoding": {}})
    c["datetime-missing-reference-and-dtype"] = lambda: dec.decode_datetime(
        {"data": [0], "encoding": {"units": "s"}}
    )
    c["datetime-missing-data-and-units"] = lambda: dec.decode_datetime(
        {"dtype": "datetime64[s]", "encoding": {"reference": "2020-01-01"}}
    )

    def datetime_access_order():
        encoding = LoggingDict({"reference": "2020-01-01", "units": "D"})
        obj = LoggingDict({"dtype": "datetime64[D]", "data": [0, 2], "encoding": encoding})
        result = dec.decode_datetime(obj)
        return [result, obj.log, encoding.log]

    c["datetime-access-order"] = datetime_access_order

    # decode_array: in-memory arrays
    def arr(dtype, data, encoding=None, **extra):
        return {"__type__": "array", "dtype": dtype, "data": data, "encoding": encoding or {}, **extra}

    arrays = {
        "int32": arr("int32", [0, 1, 2]),
        "float16": arr("float16", [0.0, 1.0, 2.5]),
        "big-endian": arr(">u2", [1, 2]),
        "complex": arr("complex64", [1, 2]),
        "bool": arr("bool", [True, False]),
        "str": arr("<U2", ["a", "bc"]),
        "bytes": arr("|S2", ["a", "bc"]),
        "object": arr("object", [1, "a", None]),
        "2d": arr("int64", [[0, 1, 2], [3, 4, 5]]),
        "0d": arr("float64", 4.5),
        "empty": arr("float32", []),
        "timedelta-s": arr("timedelta64[s]", [0, 1, 2], {"units": "s"}),
        "timedelta-10ms": arr("timedelta64[10ms]", [0, 1, 2], {"units": "ms"}),
        "timedelta-without-units": arr("timedelta64[s]", [0, 1, 2]),
        "datetime-s": dts["s"],
        "datetime-25s": dts["25s"],
        "datetime-empty": dts["empty"],
        "datetime-without-encoding": {"__type__": "array", "dtype": "datetime64[s]", "data": [0]},
        "datetime-empty-encoding": arr("datetime64[s]", [0]),
        "datetime-generic": arr("datetime64", [0], {"reference": "NaT", "units": "generic"}),
        "struct-dtype": arr("i4,f8", [(1, 2.0)]),
        "bad-dtype": arr("int65", [0]),
        "none-dtype": arr(None, [0, 1.5]),
        "dtype-object": arr(np.dtype("uint8"), [1, 2]),
        "overflow": arr("uint8", [256]),
        "ragged": arr("int64", [[1, 2], [3]]),
        "missing-dtype": {"__type__": "array", "data": [0]},
        "missing-data": {"__type__": "array", "dtype": "int8"},
        "missing-data-datetime": {"__type__": "array", "dtype": "datetime64[s]", "encoding": {"reference": "2020-01-01", "units": "s"}},
        "only-type": {"__type__": "array"},
    }
    for name, obj in arrays.items():
        for rpc in [None, 3]:
            c[f"array-{name}-rpc{rpc}"] = lambda obj=obj, rpc=rpc: dec.decode_array(obj, rpc)

    # decode_array: backend arrays
    def backend(**overrides):
        encoded = {
            "__type__": "backend_array",
            "root": "memory://path/to",
            "url": "file",
            "shape": (4, 3),
            "dtype": "int16",
            "byte_ranges": [(5, 10), (15, 20), (25, 30), (35, 40)],
            "type_code": "IU2",
        }
        encoded.update(overrides)
        return {k: v for k, v in encoded.items() if v is not ...}

    backends = {
        "default": backend(),
        "local-root": backend(root="/path/to"),
        "file-root": backend(root="file:///path/to"),
        "complex": backend(shape=(3, 5), dtype="complex64", type_code="C*8", url="IMG-HH"),
        "list-shape": backend(shape=[4, 3], byte_ranges=[[5, 10], [15, 20], [25, 30], [35, 40]]),
        "no-type-key": backend(__type__=...),
        "other-type": backend(__type__="something"),
        "type-variable": backend(__type__="variable"),
        "type-none": backend(__type__=None),
        "type-list": backend(__type__=["array"]),
        "empty": backend(shape=(0, 3), byte_ranges=[]),
        "unknown-type-code": backend(type_code="XX"),
        "extra-keys": backend(extra=1, records_per_chunk=1),
        "missing-root": backend(root=...),
        "missing-url": backend(url=...),
        "missing-shape": backend(shape=...),
        "missing-dtype": backend(dtype=...),
        "missing-byte_ranges": backend(byte_ranges=...),
        "missing-type_code": backend(type_code=...),
        "missing-type_code-and-url": backend(type_code=..., url=...),
        "missing-url-and-shape": backend(url=..., shape=...),
        "missing-shape-and-dtype": backend(shape=..., dtype=...),
        "missing-dtype-and-byte_ranges": backend(dtype=..., byte_ranges=...),
        "missing-byte_ranges-and-type_code": backend(byte_ranges=..., type_code=...),
        "missing-root-and-type_code": backend(root=..., type_code=...),
        "bad-root-protocol": backend(root="nosuchproto://x"),
        "root-none": backend(root=None),
        "root-int": backend(root=5),
        "bad-byte_ranges": backend(byte_ranges=[1, 2]),
        "empty-dict": {},
    }
    for name, obj in backends.items():
        for rpc in [None, 2, -1, 100, "auto", "10B", "nonsense"]:
            if rpc not in (None, 2) and name not in ("default", "complex", "empty"):
                continue
            c[f"backend-{name}-rpc{rpc}"] = lambda obj=obj, rpc=rpc: dec.decode_array(obj, rpc)

    def backend_access_order(**overrides):
        def run():
            obj = LoggingDict(backend(**overrides))
            out = outcome(lambda: dec.decode_array(obj, 2))
            return [out, obj.log]

        return run

    c["backend-access-order"] = backend_access_order()
    c["backend-access-order-nothing-usable"] = backend_access_order(
        url=..., shape=..., dtype=..., byte_ranges=..., type_code=...
    )
    c["backend-access-order-no-root"] = backend_access_order(root=..., url=...)

    def array_access_order(obj):
        def run():
            logged = LoggingDict(obj)
            out = outcome(lambda: dec.decode_array(logged, 2))
            return [out, logged.log]

        return run

    c["array-access-order-plain"] = array_access_order(arrays["int32"])
    c["array-access-order-datetime"] = array_access_order(arrays["datetime-s"])
    c["array-access-order-timedelta"] = array_access_order(arrays["timedelta-s"])

    c["array-on-list"] = lambda: dec.decode_array([1, 2], None)
    c["array-on-none"] = lambda: dec.decode_array(None, None)

    def reads_through_decoded_backend():
        import fsspec

        fs = fsspec.filesystem("memory")
        payload = np.arange(12, dtype=">u2").tobytes()
        fs.pipe("/eq3/root/img", payload)
        encoded = backend(
            root="memory://eq3/root",
            url="img",
            shape=(4, 3),
            dtype="uint16",
            byte_ranges=[(0, 6), (6, 12), (12, 18), (18, 24)],
        )
        decoded = dec.decode_array(encoded, 3)
        return [decoded, decoded[(slice(None), slice(None))], decoded[(slice(1, 4, 2), slice(0, 2))]]

    c["backend-reads"] = reads_through_decoded_backend

    # through the public entry point
    c["decode-array-json"] = lambda: caching.decode(
        json.dumps(
            {
                "__type__": "variable",
                "dims": ["t"],
                "data": json.loads(json.dumps(dts["25s"])),
                "attrs": {"r": {"__type__": "tuple", "data": [1, 2]}},
            }
        ),
        records_per_chunk=2,
    )

    return c


EXPECTED = r'''
{
 "array-0d-rpc3": ["returned", ["ndarray", "float64", [], [["float", "4.5"]]]],
 "array-0d-rpcNone": ["returned", ["ndarray", "float64", [], [["float", "4.5"]]]],
 "array-2d-rpc3": ["returned", ["ndarray", "int64", [2, 3], [["int", "0"], ["int", "1"], ["int", "2"], ["int", "3"], ["int", "4"], ["int", "5"]]]],
 "array-2d-rpcNone": ["returned", ["ndarray", "int64", [2, 3], [["int", "0"], ["int", "1"], ["int", "2"], ["int", "3"], ["int", "4"], ["int", "5"]]]],
 "array-access-order-datetime": ["returned", ["list", [["list", [["str", "'returned'"], ["list", [["str", "'ndarray'"], ["str", "'datetime64[s]'"], ["list", [["int", "2"]]], ["list", [["list", [["str", "'2019-01-01T00:00:00'"], ["int", "1546300800"]]], ["list", [["str", "'2020-01-01T00:00:00'"], ["int", "1577836800"]]]]]]]]], ["list", [["tuple", [["str", "'get'"], ["str", "'__type__'"]]], ["tuple", [["str", "'getitem'"], ["str", "'dtype'"]]], ["tuple", [["str", "'getitem'"], ["str", "'encoding'"]]], ["tuple", [["str", "'getitem'"], ["str", "'dtype'"]]], ["tuple", [["str", "'getitem'"], ["str", "'data'"]]]]]]]],
 "array-access-order-plain": ["returned", ["list", [["list", [["str", "'returned'"], ["list", [["str", "'ndarray'"], ["str", "'int32'"], ["list", [["int", "3"]]], ["list", [["list", [["str", "'int'"], ["str", "'0'"]]], ["list", [["str", "'int'"], ["str", "'1'"]]], ["list", [["str", "'int'"], ["str", "'2'"]]]]]]]]], ["list", [["tuple", [["str", "'get'"], ["str", "'__type__'"]]], ["tuple", [["str", "'getitem'"], ["str", "'dtype'"]]], ["tuple", [["str", "'getitem'"], ["str", "'data'"]]], ["tuple", [["str", "'getitem'"], ["str", "'dtype'"]]]]]]]],
 "array-access-order-timedelta": ["returned", ["list", [["list", [["str", "'returned'"], ["list", [["str", "'ndarray'"], ["str", "'timedelta64[s]'"], ["list", [["int", "3"]]], ["list", [["list", [["str", "'0 seconds'"], ["int", "0"]]], ["list", [["str", "'1 seconds'"], ["int", "1"]]], ["list", [["str", "'2 seconds'"], ["int", "2"]]]]]]]]], ["list", [["tuple", [["str", "'get'"], ["str", "'__type__'"]]], ["tuple", [["str", "'getitem'"], ["str", "'dtype'"]]], ["tuple", [["str", "'getitem'"], ["str", "'data'"]]], ["tuple", [["str", "'getitem'"], ["str", "'dtype'"]]]]]]]],
 "array-bad-dtype-rpc3": ["raised", [["TypeError", "data type 'int65' not understood"]]],
 "array-bad-dtype-rpcNone": ["raised", [["TypeError", "data type 'int65' not understood"]]],
 "array-big-endian-rpc3": ["returned", ["ndarray", ">u2", [2], [["int", "1"], ["int", "2"]]]],
 "array-big-endian-rpcNone": ["returned", ["ndarray", ">u2", [2], [["int", "1"], ["int", "2"]]]],
 "array-bool-rpc3": ["returned", ["ndarray", "bool", [2], [["bool", "True"], ["bool", "False"]]]],
 "array-bool-rpcNone": ["returned", ["ndarray", "bool", [2], [["bool", "True"], ["bool", "False"]]]],
 "array-bytes-rpc3": ["returned", ["ndarray", "|S2", [2], [["bytes", "b'a'"], ["bytes", "b'bc'"]]]],
 "array-bytes-rpcNone": ["returned", ["ndarray", "|S2", [2], [["bytes", "b'a'"], ["bytes", "b'bc'"]]]],
 "array-complex-rpc3": ["returned", ["ndarray", "complex64", [2], [["other", "complex", "(1+0j)"], ["other", "complex", "(2+0j)"]]]],
 "array-complex-rpcNone": ["returned", ["ndarray", "complex64", [2], [["other", "complex", "(1+0j)"], ["other", "complex", "(2+0j)"]]]],
 "array-datetime-25s-rpc3": ["returned", ["ndarray", "datetime64[25s]", [3], [["2019-01-01T00:00:50", 61852034], ["2019-01-02T00:01:40", 61855492], ["2018-12-31T23:59:35", 61852031]]]],
 "array-datetime-25s-rpcNone": ["returned", ["ndarray", "datetime64[25s]", [3], [["2019-01-01T00:00:50", 61852034], ["2019-01-02T00:01:40", 61855492], ["2018-12-31T23:59:35", 61852031]]]],
 "array-datetime-empty-encoding-rpc3": ["raised", [["KeyError", "'reference'"]]],
 "array-datetime-empty-encoding-rpcNone": ["raised", [["KeyError", "'reference'"]]],
 "array-datetime-empty-rpc3": ["returned", ["ndarray", "datetime64[s]", [0], []]],
 "array-datetime-empty-rpcNone": ["returned", ["ndarray", "datetime64[s]", [0], []]],
 "array-datetime-generic-rpc3": ["returned", ["ndarray", "datetime64", [1], [["NaT", -9223372036854775808]]]],
 "array-datetime-generic-rpcNone": ["returned", ["ndarray", "datetime64", [1], [["NaT", -9223372036854775808]]]],
 "array-datetime-s-rpc3": ["returned", ["ndarray", "datetime64[s]", [2], [["2019-01-01T00:00:00", 1546300800], ["2020-01-01T00:00:00", 1577836800]]]],
 "array-datetime-s-rpcNone": ["returned", ["ndarray", "datetime64[s]", [2], [["2019-01-01T00:00:00", 1546300800], ["2020-01-01T00:00:00", 1577836800]]]],
 "array-datetime-without-encoding-rpc3": ["raised", [["KeyError", "'encoding'"]]],
 "array-datetime-without-encoding-rpcNone": ["raised", [["KeyError", "'encoding'"]]],
 "array-dtype-object-rpc3": ["returned", ["ndarray", "uint8", [2], [["int", "1"], ["int", "2"]]]],
 "array-dtype-object-rpcNone": ["returned", ["ndarray", "uint8", [2], [["int", "1"], ["int", "2"]]]],
 "array-empty-rpc3": ["returned", ["ndarray", "float32", [0], []]],
 "array-empty-rpcNone": ["returned", ["ndarray", "float32", [0], []]],
 "array-float16-rpc3": ["returned", ["ndarray", "float16", [3], [["float", "0.0"], ["float", "1.0"], ["float", "2.5"]]]],
 "array-float16-rpcNone": ["returned", ["ndarray", "float16", [3], [["float", "0.0"], ["float", "1.0"], ["float", "2.5"]]]],
 "array-int32-rpc3": ["returned", ["ndarray", "int32", [3], [["int", "0"], ["int", "1"], ["int", "2"]]]],
 "array-int32-rpcNone": ["returned", ["ndarray", "int32", [3], [["int", "0"], ["int", "1"], ["int", "2"]]]],
 "array-missing-data-datetime-rpc3": ["raised", [["KeyError", "'data'"]]],
 "array-missing-data-datetime-rpcNone": ["raised", [["KeyError", "'data'"]]],
 "array-missing-data-rpc3": ["raised", [["KeyError", "'data'"]]],
 "array-missing-data-rpcNone": ["raised", [["KeyError", "'data'"]]],
 "array-missing-dtype-rpc3": ["raised", [["KeyError", "'dtype'"]]],
 "array-missing-dtype-rpcNone": ["raised", [["KeyError", "'dtype'"]]],
 "array-none-dtype-rpc3": ["returned", ["ndarray", "float64", [2], [["float", "0.0"], ["float", "1.5"]]]],
 "array-none-dtype-rpcNone": ["returned", ["ndarray", "float64", [2], [["float", "0.0"], ["float", "1.5"]]]],
 "array-object-rpc3": ["returned", ["ndarray", "object", [3], [["int", "1"], ["str", "'a'"], ["NoneType", "None"]]]],
 "array-object-rpcNone": ["returned", ["ndarray", "object", [3], [["int", "1"], ["str", "'a'"], ["NoneType", "None"]]]],
 "array-on-list": ["raised", [["AttributeError", "'list' object has no attribute 'get'"]]],
 "array-on-none": ["raised", [["AttributeError", "'NoneType' object has no attribute 'get'"]]],
 "array-only-type-rpc3": ["raised", [["KeyError", "'dtype'"]]],
 "array-only-type-rpcNone": ["raised", [["KeyError", "'dtype'"]]],
 "array-overflow-rpc3": ["raised", [["OverflowError", "Python integer 256 out of bounds for uint8"]]],
 "array-overflow-rpcNone": ["raised", [["OverflowError", "Python integer 256 out of bounds for uint8"]]],
 "array-ragged-rpc3": ["raised", [["ValueError", "setting an array element with a sequence. The requested array has an inhomogeneous shape after 1 dimensions. The detected shape was (2,) + inhomogeneous part."]]],
 "array-ragged-rpcNone": ["raised", [["ValueError", "setting an array element with a sequence. The requested array has an inhomogeneous shape after 1 dimensions. The detected shape was (2,) + inhomogeneous part."]]],
 "array-str-rpc3": ["returned", ["ndarray", "<U2", [2], [["str", "'a'"], ["str", "'bc'"]]]],
 "array-str-rpcNone": ["returned", ["ndarray", "<U2", [2], [["str", "'a'"], ["str", "'bc'"]]]],
 "array-struct-dtype-rpc3": ["returned", ["ndarray", "[('f0', '<i4'), ('f1', '<f8')]", [1], [["tuple", [["int", "1"], ["float", "2.0"]]]]]],
 "array-struct-dtype-rpcNone": ["returned", ["ndarray", "[('f0', '<i4'), ('f1', '<f8')]", [1], [["tuple", [["int", "1"], ["float", "2.0"]]]]]],
 "array-timedelta-10ms-rpc3": ["returned", ["ndarray", "timedelta64[10ms]", [3], [["0 milliseconds", 0], ["10 milliseconds", 1], ["20 milliseconds", 2]]]],
 "array-timedelta-10ms-rpcNone": ["returned", ["ndarray", "timedelta64[10ms]", [3], [["0 milliseconds", 0], ["10 milliseconds", 1], ["20 milliseconds", 2]]]],
 "array-timedelta-s-rpc3": ["returned", ["ndarray", "timedelta64[s]", [3], [["0 seconds", 0], ["1 seconds", 1], ["2 seconds", 2]]]],
 "array-timedelta-s-rpcNone": ["returned", ["ndarray", "timedelta64[s]", [3], [["0 seconds", 0], ["1 seconds", 1], ["2 seconds", 2]]]],
 "array-timedelta-without-units-rpc3": ["returned", ["ndarray", "timedelta64[s]", [3], [["0 seconds", 0], ["1 seconds", 1], ["2 seconds", 2]]]],
 "array-timedelta-without-units-rpcNone": ["returned", ["ndarray", "timedelta64[s]", [3], [["0 seconds", 0], ["1 seconds", 1], ["2 seconds", 2]]]],
 "backend-access-order": ["returned", ["list", [["list", [["str", "'returned'"], ["list", [["str", "'Array'"], ["str", "'DirFileSystem'"], ["list", [["str", "'str'"], ["str", "\"'/path/to'\""]]], ["str", "'MemoryFileSystem'"], ["list", [["str", "'str'"], ["str", "\"'file'\""]]], ["list", [["str", "'list'"], ["list", [["list", [["str", "'tuple'"], ["list", [["list", [["str", "'int'"], ["str", "'5'"]]], ["list", [["str", "'int'"], ["str", "'10'"]]]]]]], ["list", [["str", "'tuple'"], ["list", [["list", [["str", "'int'"], ["str", "'15'"]]], ["list", [["str", "'int'"], ["str", "'20'"]]]]]]], ["list", [["str", "'tuple'"], ["list", [["list", [["str", "'int'"], ["str", "'25'"]]], ["list", [["str", "'int'"], ["str", "'30'"]]]]]]], ["list", [["str", "'tuple'"], ["list", [["list", [["str", "'int'"], ["str", "'35'"]]], ["list", [["str", "'int'"], ["str", "'40'"]]]]]]]]]]], ["list", [["str", "'tuple'"], ["list", [["list", [["str", "'int'"], ["str", "'4'"]]], ["list", [["str", "'int'"], ["str", "'3'"]]]]]]], ["list", [["str", "'str'"], ["str", "\"'int16'\""]]], ["list", [["str", "'str'"], ["str", "\"'IU2'\""]]], ["list", [["str", "'int'"], ["str", "'2'"]]], ["list", [["str", "'dict'"], ["list", [["list", [["list", [["str", "'int'"], ["str", "'0'"]]], ["list", [["str", "'dict'"], ["list", [["list", [["list", [["str", "'str'"], ["str", "\"'offset'\""]]], ["list", [["str", "'int'"], ["str", "'5'"]]]]], ["list", [["list", [["str", "'str'"], ["str", "\"'size'\""]]], ["list", [["str", "'int'"], ["str", "'15'"]]]]]]]]]]], ["list", [["list", [["str", "'int'"], ["str", "'1'"]]], ["list", [["str", "'dict'"], ["list", [["list", [["list", [["str", "'str'"], ["str", "\"'offset'\""]]], ["list", [["str", "'int'"], ["str", "'25'"]]]]], ["list", [["list", [["str", "'str'"], ["str", "\"'size'\""]]], ["list", [["str", "'int'"], ["str", "'15'"]]]]]]]]]]]]]]]]]]], ["list", [["tuple", [["str", "'get'"], ["str", "'__type__'"]]], ["tuple", [["str", "'getitem'"], ["str", "'root'"]]], ["tuple", [["str", "'getitem'"], ["str", "'type_code'"]]], ["tuple", [["str", "'getitem'"], ["str", "'url'"]]], ["tuple", [["str", "'getitem'"], ["str", "'shape'"]]], ["tuple", [["str", "'getitem'"], ["str", "'dtype'"]]], ["tuple", [["str", "'getitem'"], ["str", "'byte_ranges'"]]]]]]]],
 "backend-access-order-no-root": ["returned", ["list", [["list", [["str", "'raised'"], ["list", [["list", [["str", "'KeyError'"], ["str", "\"'root'\""]]]]]]], ["list", [["tuple", [["str", "'get'"], ["str", "'__type__'"]]], ["tuple", [["str", "'getitem'"], ["str", "'root'"]]]]]]]],
 "backend-access-order-nothing-usable": ["returned", ["list", [["list", [["str", "'raised'"], ["list", [["list", [["str", "'KeyError'"], ["str", "\"'type_code'\""]]]]]]], ["list", [["tuple", [["str", "'get'"], ["str", "'__type__'"]]], ["tuple", [["str", "'getitem'"], ["str", "'root'"]]], ["tuple", [["str", "'getitem'"], ["str", "'type_code'"]]]]]]]],
 "backend-bad-byte_ranges-rpc2": ["raised", [["TypeError", "cannot unpack non-iterable int object"]]],
 "backend-bad-byte_ranges-rpcNone": ["raised", [["TypeError", "cannot unpack non-iterable int object"]]],
 "backend-bad-root-protocol-rpc2": ["raised", [["ValueError", "Protocol not known: nosuchproto"]]],
 "backend-bad-root-protocol-rpcNone": ["raised", [["ValueError", "Protocol not known: nosuchproto"]]],
 "backend-complex-rpc-1": ["returned", ["Array", "DirFileSystem", ["str", "'/path/to'"], "MemoryFileSystem", ["str", "'IMG-HH'"], ["list", [["tuple", [["int", "5"], ["int", "10"]]], ["tuple", [["int", "15"], ["int", "20"]]], ["tuple", [["int", "25"], ["int", "30"]]], ["tuple", [["int", "35"], ["int", "40"]]]]], ["tuple", [["int", "3"], ["int", "5"]]], ["str", "'complex64'"], ["str", "'C*8'"], ["int", "3"], ["dict", [[["int", "0"], ["dict", [[["str", "'offset'"], ["int", "5"]], [["str", "'size'"], ["int", "25"]]]]], [["int", "1"], ["dict", [[["str", "'offset'"], ["int", "35"]], [["str", "'size'"], ["int", "5"]]]]]]]]],
 "backend-complex-rpc100": ["returned", ["Array", "DirFileSystem", ["str", "'/path/to'"], "MemoryFileSystem", ["str", "'IMG-HH'"], ["list", [["tuple", [["int", "5"], ["int", "10"]]], ["tuple", [["int", "15"], ["int", "20"]]], ["tuple", [["int", "25"], ["int", "30"]]], ["tuple", [["int", "35"], ["int", "40"]]]]], ["tuple", [["int", "3"], ["int", "5"]]], ["str", "'complex64'"], ["str", "'C*8'"], ["int", "3"], ["dict", [[["int", "0"], ["dict", [[["str", "'offset'"], ["int", "5"]], [["str", "'size'"], ["int", "25"]]]]], [["int", "1"], ["dict", [[["str", "'offset'"], ["int", "35"]], [["str", "'size'"], ["int", "5"]]]]]]]]],
 "backend-complex-rpc10B": ["returned", ["Array", "DirFileSystem", ["str", "'/path/to'"], "MemoryFileSystem", ["str", "'IMG-HH'"], ["list", [["tuple", [["int", "5"], ["int", "10"]]], ["tuple", [["int", "15"], ["int", "20"]]], ["tuple", [["int", "25"], ["int", "30"]]], ["tuple", [["int", "35"], ["int", "40"]]]]], ["tuple", [["int", "3"], ["int", "5"]]], ["str", "'complex64'"], ["str", "'C*8'"], ["int64", "2"], ["dict", [[["int", "0"], ["dict", [[["str", "'offset'"], ["int", "5"]], [["str", "'size'"], ["int", "15"]]]]], [["int", "1"], ["dict", [[["str", "'offset'"], ["int", "25"]], [["str", "'size'"], ["int", "15"]]]]]]]]],
 "backend-complex-rpc2": ["returned", ["Array", "DirFileSystem", ["str", "'/path/to'"], "MemoryFileSystem", ["str", "'IMG-HH'"], ["list", [["tuple", [["int", "5"], ["int", "10"]]], ["tuple", [["int", "15"], ["int", "20"]]], ["tuple", [["int", "25"], ["int", "30"]]], ["tuple", [["int", "35"], ["int", "40"]]]]], ["tuple", [["int", "3"], ["int", "5"]]], ["str", "'complex64'"], ["str", "'C*8'"], ["int", "2"], ["dict", [[["int", "0"], ["dict", [[["str", "'offset'"], ["int", "5"]], [["str", "'size'"], ["int", "15"]]]]], [["int", "1"], ["dict", [[["str", "'offset'"], ["int", "25"]], [["str", "'size'"], ["int", "15"]]]]]]]]],
 "backend-complex-rpcNone": ["returned", ["Array", "DirFileSystem", ["str", "'/path/to'"], "MemoryFileSystem", ["str", "'IMG-HH'"], ["list", [["tuple", [["int", "5"], ["int", "10"]]], ["tuple", [["int", "15"], ["int", "20"]]], ["tuple", [["int", "25"], ["int", "30"]]], ["tuple", [["int", "35"], ["int", "40"]]]]], ["tuple", [["int", "3"], ["int", "5"]]], ["str", "'complex64'"], ["str", "'C*8'"], ["int", "1024"], ["dict", [[["int", "0"], ["dict", [[["str", "'offset'"], ["int", "5"]], [["str", "'size'"], ["int", "35"]]]]]]]]],
 "backend-complex-rpcauto": ["returned", ["Array", "DirFileSystem", ["str", "'/path/to'"], "MemoryFileSystem", ["str", "'IMG-HH'"], ["list", [["tuple", [["int", "5"], ["int", "10"]]], ["tuple", [["int", "15"], ["int", "20"]]], ["tuple", [["int", "25"], ["int", "30"]]], ["tuple", [["int", "35"], ["int", "40"]]]]], ["tuple", [["int", "3"], ["int", "5"]]], ["str", "'complex64'"], ["str", "'C*8'"], ["int64", "4"], ["dict", [[["int", "0"], ["dict", [[["str", "'offset'"], ["int", "5"]], [["str", "'size'"], ["int", "35"]]]]]]]]],
 "backend-complex-rpcnonsense": ["raised", [["ValueError", "Could not interpret 'nonsense' as a byte unit"], ["KeyError", "'nonsense'"]]],
 "backend-default-rpc-1": ["returned", ["Array", "DirFileSystem", ["str", "'/path/to'"], "MemoryFileSystem", ["str", "'file'"], ["list", [["tuple", [["int", "5"], ["int", "10"]]], ["tuple", [["int", "15"], ["int", "20"]]], ["tuple", [["int", "25"], ["int", "30"]]], ["tuple", [["int", "35"], ["int", "40"]]]]], ["tuple", [["int", "4"], ["int", "3"]]], ["str", "'int16'"], ["str", "'IU2'"], ["int", "4"], ["dict", [[["int", "0"], ["dict", [[["str", "'offset'"], ["int", "5"]], [["str", "'size'"], ["int", "35"]]]]]]]]],
 "backend-default-rpc100": ["returned", ["Array", "DirFileSystem", ["str", "'/path/to'"], "MemoryFileSystem", ["str", "'file'"], ["list", [["tuple", [["int", "5"], ["int", "10"]]], ["tuple", [["int", "15"], ["int", "20"]]], ["tuple", [["int", "25"], ["int", "30"]]], ["tuple", [["int", "35"], ["int", "40"]]]]], ["tuple", [["int", "4"], ["int", "3"]]], ["str", "'int16'"], ["str", "'IU2'"], ["int", "4"], ["dict", [[["int", "0"], ["dict", [[["str", "'offset'"], ["int", "5"]], [["str", "'size'"], ["int", "35"]]]]]]]]],
 "backend-default-rpc10B": ["returned", ["Array", "DirFileSystem", ["str", "'/path/to'"], "MemoryFileSystem", ["str", "'file'"], ["list", [["tuple", [["int", "5"], ["int", "10"]]], ["tuple", [["int", "15"], ["int", "20"]]], ["tuple", [["int", "25"], ["int", "30"]]], ["tuple", [["int", "35"], ["int", "40"]]]]], ["tuple", [["int", "4"], ["int", "3"]]], ["str", "'int16'"], ["str", "'IU2'"], ["int64", "2"], ["dict", [[["int", "0"], ["dict", [[["str", "'offset'"], ["int", "5"]], [["str", "'size'"], ["int", "15"]]]]], [["int", "1"], ["dict", [[["str", "'offset'"], ["int", "25"]], [["str", "'size'"], ["int", "15"]]]]]]]]],
 "backend-default-rpc2": ["returned", ["Array", "DirFileSystem", ["str", "'/path/to'"], "MemoryFileSystem", ["str", "'file'"], ["list", [["tuple", [["int", "5"], ["int", "10"]]], ["tuple", [["int", "15"], ["int", "20"]]], ["tuple", [["int", "25"], ["int", "30"]]], ["tuple", [["int", "35"], ["int", "40"]]]]], ["tuple", [["int", "4"], ["int", "3"]]], ["str", "'int16'"], ["str", "'IU2'"], ["int", "2"], ["dict", [[["int", "0"], ["dict", [[["str", "'offset'"], ["int", "5"]], [["str", "'size'"], ["int", "15"]]]]], [["int", "1"], ["dict", [[["str", "'offset'"], ["int", "25"]], [["str", "'size'"], ["int", "15"]]]]]]]]],
 "backend-default-rpcNone": ["returned", ["Array", "DirFileSystem", ["str", "'/path/to'"], "MemoryFileSystem", ["str", "'file'"], ["list", [["tuple", [["int", "5"], ["int", "10"]]], ["tuple", [["int", "15"], ["int", "20"]]], ["tuple", [["int", "25"], ["int", "30"]]], ["tuple", [["int", "35"], ["int", "40"]]]]], ["tuple", [["int", "4"], ["int", "3"]]], ["str", "'int16'"], ["str", "'IU2'"], ["int", "1024"], ["dict", [[["int", "0"], ["dict", [[["str", "'offset'"], ["int", "5"]], [["str", "'size'"], ["int", "35"]]]]]]]]],
 "backend-default-rpcauto": ["returned", ["Array", "DirFileSystem", ["str", "'/path/to'"], "MemoryFileSystem", ["str", "'file'"], ["list", [["tuple", [["int", "5"], ["int", "10"]]], ["tuple", [["int", "15"], ["int", "20"]]], ["tuple", [["int", "25"], ["int", "30"]]], ["tuple", [["int", "35"], ["int", "40"]]]]], ["tuple", [["int", "4"], ["int", "3"]]], ["str", "'int16'"], ["str", "'IU2'"], ["int64", "4"], ["dict", [[["int", "0"], ["dict", [[["str", "'offset'"], ["int", "5"]], [["str", "'size'"], ["int", "35"]]]]]]]]],
 "backend-default-rpcnonsense": ["raised", [["ValueError", "Could not interpret 'nonsense' as a byte unit"], ["KeyError", "'nonsense'"]]],
 "backend-empty-dict-rpc2": ["raised", [["KeyError", "'root'"]]],
 "backend-empty-dict-rpcNone": ["raised", [["KeyError", "'root'"]]],
 "backend-empty-rpc-1": ["returned", ["Array", "DirFileSystem", ["str", "'/path/to'"], "MemoryFileSystem", ["str", "'file'"], ["list", []], ["tuple", [["int", "0"], ["int", "3"]]], ["str", "'int16'"], ["str", "'IU2'"], ["int", "0"], ["dict", []]]],
 "backend-empty-rpc100": ["returned", ["Array", "DirFileSystem", ["str", "'/path/to'"], "MemoryFileSystem", ["str", "'file'"], ["list", []], ["tuple", [["int", "0"], ["int", "3"]]], ["str", "'int16'"], ["str", "'IU2'"], ["int", "0"], ["dict", []]]],
 "backend-empty-rpc10B": ["raised", [["ValueError", "attempt to get argmin of an empty sequence"]]],
 "backend-empty-rpc2": ["returned", ["Array", "DirFileSystem", ["str", "'/path/to'"], "MemoryFileSystem", ["str", "'file'"], ["list", []], ["tuple", [["int", "0"], ["int", "3"]]], ["str", "'int16'"], ["str", "'IU2'"], ["int", "0"], ["dict", []]]],
 "backend-empty-rpcNone": ["returned", ["Array", "DirFileSystem", ["str", "'/path/to'"], "MemoryFileSystem", ["str", "'file'"], ["list", []], ["tuple", [["int", "0"], ["int", "3"]]], ["str", "'int16'"], ["str", "'IU2'"], ["int", "1024"], ["dict", []]]],
 "backend-empty-rpcauto": ["raised", [["ValueError", "attempt to get argmin of an empty sequence"]]],
 "backend-empty-rpcnonsense": ["raised", [["ValueError", "Could not interpret 'nonsense' as a byte unit"], ["KeyError", "'nonsense'"]]],
 "backend-extra-keys-rpc2": ["returned", ["Array", "DirFileSystem", ["str", "'/path/to'"], "MemoryFileSystem", ["str", "'file'"], ["list", [["tuple", [["int", "5"], ["int", "10"]]], ["tuple", [["int", "15"], ["int", "20"]]], ["tuple", [["int", "25"], ["int", "30"]]], ["tuple", [["int", "35"], ["int", "40"]]]]], ["tuple", [["int", "4"], ["int", "3"]]], ["str", "'int16'"], ["str", "'IU2'"], ["int", "2"], ["dict", [[["int", "0"], ["dict", [[["str", "'offset'"], ["int", "5"]], [["str", "'size'"], ["int", "15"]]]]], [["int", "1"], ["dict", [[["str", "'offset'"], ["int", "25"]], [["str", "'size'"], ["int", "15"]]]]]]]]],
 "backend-extra-keys-rpcNone": ["returned", ["Array", "DirFileSystem", ["str", "'/path/to'"], "MemoryFileSystem", ["str", "'file'"], ["list", [["tuple", [["int", "5"], ["int", "10"]]], ["tuple", [["int", "15"], ["int", "20"]]], ["tuple", [["int", "25"], ["int", "30"]]], ["tuple", [["int", "35"], ["int", "40"]]]]], ["tuple", [["int", "4"], ["int", "3"]]], ["str", "'int16'"], ["str", "'IU2'"], ["int", "1024"], ["dict", [[["int", "0"], ["dict", [[["str", "'offset'"], ["int", "5"]], [["str", "'size'"], ["int", "35"]]]]]]]]],
 "backend-file-root-rpc2": ["returned", ["Array", "DirFileSystem", ["str", "'/path/to'"], "LocalFileSystem", ["str", "'file'"], ["list", [["tuple", [["int", "5"], ["int", "10"]]], ["tuple", [["int", "15"], ["int", "20"]]], ["tuple", [["int", "25"], ["int", "30"]]], ["tuple", [["int", "35"], ["int", "40"]]]]], ["tuple", [["int", "4"], ["int", "3"]]], ["str", "'int16'"], ["str", "'IU2'"], ["int", "2"], ["dict", [[["int", "0"], ["dict", [[["str", "'offset'"], ["int", "5"]], [["str", "'size'"], ["int", "15"]]]]], [["int", "1"], ["dict", [[["str", "'offset'"], ["int", "25"]], [["str", "'size'"], ["int", "15"]]]]]]]]],
 "backend-file-root-rpcNone": ["returned", ["Array", "DirFileSystem", ["str", "'/path/to'"], "LocalFileSystem", ["str", "'file'"], ["list", [["tuple", [["int", "5"], ["int", "10"]]], ["tuple", [["int", "15"], ["int", "20"]]], ["tuple", [["int", "25"], ["int", "30"]]], ["tuple", [["int", "35"], ["int", "40"]]]]], ["tuple", [["int", "4"], ["int", "3"]]], ["str", "'int16'"], ["str", "'IU2'"], ["int", "1024"], ["dict", [[["int", "0"], ["dict", [[["str", "'offset'"], ["int", "5"]], [["str", "'size'"], ["int", "35"]]]]]]]]],
 "backend-list-shape-rpc2": ["returned", ["Array", "DirFileSystem", ["str", "'/path/to'"], "MemoryFileSystem", ["str", "'file'"], ["list", [["list", [["int", "5"], ["int", "10"]]], ["list", [["int", "15"], ["int", "20"]]], ["list", [["int", "25"], ["int", "30"]]], ["list", [["int", "35"], ["int", "40"]]]]], ["list", [["int", "4"], ["int", "3"]]], ["str", "'int16'"], ["str", "'IU2'"], ["int", "2"], ["dict", [[["int", "0"], ["dict", [[["str", "'offset'"], ["int", "5"]], [["str", "'size'"], ["int", "15"]]]]], [["int", "1"], ["dict", [[["str", "'offset'"], ["int", "25"]], [["str", "'size'"], ["int", "15"]]]]]]]]],
 "backend-list-shape-rpcNone": ["returned", ["Array", "DirFileSystem", ["str", "'/path/to'"], "MemoryFileSystem", ["str", "'file'"], ["list", [["list", [["int", "5"], ["int", "10"]]], ["list", [["int", "15"], ["int", "20"]]], ["list", [["int", "25"], ["int", "30"]]], ["list", [["int", "35"], ["int", "40"]]]]], ["list", [["int", "4"], ["int", "3"]]], ["str", "'int16'"], ["str", "'IU2'"], ["int", "1024"], ["dict", [[["int", "0"], ["dict", [[["str", "'offset'"], ["int", "5"]], [["str", "'size'"], ["int", "35"]]]]]]]]],
 "backend-local-root-rpc2": ["returned", ["Array", "DirFileSystem", ["str", "'/path/to'"], "LocalFileSystem", ["str", "'file'"], ["list", [["tuple", [["int", "5"], ["int", "10"]]], ["tuple", [["int", "15"], ["int", "20"]]], ["tuple", [["int", "25"], ["int", "30"]]], ["tuple", [["int", "35"], ["int", "40"]]]]], ["tuple", [["int", "4"], ["int", "3"]]], ["str", "'int16'"], ["str", "'IU2'"], ["int", "2"], ["dict", [[["int", "0"], ["dict", [[["str", "'offset'"], ["int", "5"]], [["str", "'size'"], ["int", "15"]]]]], [["int", "1"], ["dict", [[["str", "'offset'"], ["int", "25"]], [["str", "'size'"], ["int", "15"]]]]]]]]],
 "backend-local-root-rpcNone": ["returned", ["Array", "DirFileSystem", ["str", "'/path/to'"], "LocalFileSystem", ["str", "'file'"], ["list", [["tuple", [["int", "5"], ["int", "10"]]], ["tuple", [["int", "15"], ["int", "20"]]], ["tuple", [["int", "25"], ["int", "30"]]], ["tuple", [["int", "35"], ["int", "40"]]]]], ["tuple", [["int", "4"], ["int", "3"]]], ["str", "'int16'"], ["str", "'IU2'"], ["int", "1024"], ["dict", [[["int", "0"], ["dict", [[["str", "'offset'"], ["int", "5"]], [["str", "'size'"], ["int", "35"]]]]]]]]],
 "backend-missing-byte_ranges-and-type_code-rpc2": ["raised", [["KeyError", "'type_code'"]]],
 "backend-missing-byte_ranges-and-type_code-rpcNone": ["raised", [["KeyError", "'type_code'"]]],
 "backend-missing-byte_ranges-rpc2": ["raised", [["KeyError", "'byte_ranges'"]]],
 "backend-missing-byte_ranges-rpcNone": ["raised", [["KeyError", "'byte_ranges'"]]],
 "backend-missing-dtype-and-byte_ranges-rpc2": ["raised", [["KeyError", "'dtype'"]]],
 "backend-missing-dtype-and-byte_ranges-rpcNone": ["raised", [["KeyError", "'dtype'"]]],
 "backend-missing-dtype-rpc2": ["raised", [["KeyError", "'dtype'"]]],
 "backend-missing-dtype-rpcNone": ["raised", [["KeyError", "'dtype'"]]],
 "backend-missing-root-and-type_code-rpc2": ["raised", [["KeyError", "'root'"]]],
 "backend-missing-root-and-type_code-rpcNone": ["raised", [["KeyError", "'root'"]]],
 "backend-missing-root-rpc2": ["raised", [["KeyError", "'root'"]]],
 "backend-missing-root-rpcNone": ["raised", [["KeyError", "'root'"]]],
 "backend-missing-shape-and-dtype-rpc2": ["raised", [["KeyError", "'shape'"]]],
 "backend-missing-shape-and-dtype-rpcNone": ["raised", [["KeyError", "'shape'"]]],
 "backend-missing-shape-rpc2": ["raised", [["KeyError", "'shape'"]]],
 "backend-missing-shape-rpcNone": ["raised", [["KeyError", "'shape'"]]],
 "backend-missing-type_code-and-url-rpc2": ["raised", [["KeyError", "'type_code'"]]],
 "backend-missing-type_code-and-url-rpcNone": ["raised", [["KeyError", "'type_code'"]]],
 "backend-missing-type_code-rpc2": ["raised", [["KeyError", "'type_code'"]]],
 "backend-missing-type_code-rpcNone": ["raised", [["KeyError", "'type_code'"]]],
 "backend-missing-url-and-shape-rpc2": ["raised", [["KeyError", "'url'"]]],
 "backend-missing-url-and-shape-rpcNone": ["raised", [["KeyError", "'url'"]]],
 "backend-missing-url-rpc2": ["raised", [["KeyError", "'url'"]]],
 "backend-missing-url-rpcNone": ["raised", [["KeyError", "'url'"]]],
 "backend-no-type-key-rpc2": ["returned", ["Array", "DirFileSystem", ["str", "'/path/to'"], "MemoryFileSystem", ["str", "'file'"], ["list", [["tuple", [["int", "5"], ["int", "10"]]], ["tuple", [["int", "15"], ["int", "20"]]], ["tuple", [["int", "25"], ["int", "30"]]], ["tuple", [["int", "35"], ["int", "40"]]]]], ["tuple", [["int", "4"], ["int", "3"]]], ["str", "'int16'"], ["str", "'IU2'"], ["int", "2"], ["dict", [[["int", "0"], ["dict", [[["str", "'offset'"], ["int", "5"]], [["str", "'size'"], ["int", "15"]]]]], [["int", "1"], ["dict", [[["str", "'offset'"], ["int", "25"]], [["str", "'size'"], ["int", "15"]]]]]]]]],
 "backend-no-type-key-rpcNone": ["returned", ["Array", "DirFileSystem", ["str", "'/path/to'"], "MemoryFileSystem", ["str", "'file'"], ["list", [["tuple", [["int", "5"], ["int", "10"]]], ["tuple", [["int", "15"], ["int", "20"]]], ["tuple", [["int", "25"], ["int", "30"]]], ["tuple", [["int", "35"], ["int", "40"]]]]], ["tuple", [["int", "4"], ["int", "3"]]], ["str", "'int16'"], ["str", "'IU2'"], ["int", "1024"], ["dict", [[["int", "0"], ["dict", [[["str", "'offset'"], ["int", "5"]], [["str", "'size'"], ["int", "35"]]]]]]]]],
 "backend-other-type-rpc2": ["returned", ["Array", "DirFileSystem", ["str", "'/path/to'"], "MemoryFileSystem", ["str", "'file'"], ["list", [["tuple", [["int", "5"], ["int", "10"]]], ["tuple", [["int", "15"], ["int", "20"]]], ["tuple", [["int", "25"], ["int", "30"]]], ["tuple", [["int", "35"], ["int", "40"]]]]], ["tuple", [["int", "4"], ["int", "3"]]], ["str", "'int16'"], ["str", "'IU2'"], ["int", "2"], ["dict", [[["int", "0"], ["dict", [[["str", "'offset'"], ["int", "5"]], [["str", "'size'"], ["int", "15"]]]]], [["int", "1"], ["dict", [[["str", "'offset'"], ["int", "25"]], [["str", "'size'"], ["int", "15"]]]]]]]]],
 "backend-other-type-rpcNone": ["returned", ["Array", "DirFileSystem", ["str", "'/path/to'"], "MemoryFileSystem", ["str", "'file'"], ["list", [["tuple", [["int", "5"], ["int", "10"]]], ["tuple", [["int", "15"], ["int", "20"]]], ["tuple", [["int", "25"], ["int", "30"]]], ["tuple", [["int", "35"], ["int", "40"]]]]], ["tuple", [["int", "4"], ["int", "3"]]], ["str", "'int16'"], ["str", "'IU2'"], ["int", "1024"], ["dict", [[["int", "0"], ["dict", [[["str", "'offset'"], ["int", "5"]], [["str", "'size'"], ["int", "35"]]]]]]]]],
 "backend-reads": ["returned", ["list", [["Array", "DirFileSystem", ["str", "'/eq3/root'"], "MemoryFileSystem", ["str", "'img'"], ["list", [["tuple", [["int", "0"], ["int", "6"]]], ["tuple", [["int", "6"], ["int", "12"]]], ["tuple", [["int", "12"], ["int", "18"]]], ["tuple", [["int", "18"], ["int", "24"]]]]], ["tuple", [["int", "4"], ["int", "3"]]], ["str", "'uint16'"], ["str", "'IU2'"], ["int", "3"], ["dict", [[["int", "0"], ["dict", [[["str", "'offset'"], ["int", "0"]], [["str", "'size'"], ["int", "18"]]]]], [["int", "1"], ["dict", [[["str", "'offset'"], ["int", "18"]], [["str", "'size'"], ["int", "6"]]]]]]]], ["ndarray", "uint16", [4, 3], [["int", "0"], ["int", "1"], ["int", "2"], ["int", "3"], ["int", "4"], ["int", "5"], ["int", "6"], ["int", "7"], ["int", "8"], ["int", "9"], ["int", "10"], ["int", "11"]]], ["ndarray", "uint16", [2, 2], [["int", "3"], ["int", "4"], ["int", "9"], ["int", "10"]]]]]],
 "backend-root-int-rpc2": ["raised", [["TypeError", "argument of type 'int' is not iterable"]]],
 "backend-root-int-rpcNone": ["raised", [["TypeError", "argument of type 'int' is not iterable"]]],
 "backend-root-none-rpc2": ["raised", [["TypeError", "argument of type 'NoneType' is not iterable"]]],
 "backend-root-none-rpcNone": ["raised", [["TypeError", "argument of type 'NoneType' is not iterable"]]],
 "backend-type-list-rpc2": ["returned", ["Array", "DirFileSystem", ["str", "'/path/to'"], "MemoryFileSystem", ["str", "'file'"], ["list", [["tuple", [["int", "5"], ["int", "10"]]], ["tuple", [["int", "15"], ["int", "20"]]], ["tuple", [["int", "25"], ["int", "30"]]], ["tuple", [["int", "35"], ["int", "40"]]]]], ["tuple", [["int", "4"], ["int", "3"]]], ["str", "'int16'"], ["str", "'IU2'"], ["int", "2"], ["dict", [[["int", "0"], ["dict", [[["str", "'offset'"], ["int", "5"]], [["str", "'size'"], ["int", "15"]]]]], [["int", "1"], ["dict", [[["str", "'offset'"], ["int", "25"]], [["str", "'size'"], ["int", "15"]]]]]]]]],
 "backend-type-list-rpcNone": ["returned", ["Array", "DirFileSystem", ["str", "'/path/to'"], "MemoryFileSystem", ["str", "'file'"], ["list", [["tuple", [["int", "5"], ["int", "10"]]], ["tuple", [["int", "15"], ["int", "20"]]], ["tuple", [["int", "25"], ["int", "30"]]], ["tuple", [["int", "35"], ["int", "40"]]]]], ["tuple", [["int", "4"], ["int", "3"]]], ["str", "'int16'"], ["str", "'IU2'"], ["int", "1024"], ["dict", [[["int", "0"], ["dict", [[["str", "'offset'"], ["int", "5"]], [["str", "'size'"], ["int", "35"]]]]]]]]],
 "backend-type-none-rpc2": ["returned", ["Array", "DirFileSystem", ["str", "'/path/to'"], "MemoryFileSystem", ["str", "'file'"], ["list", [["tuple", [["int", "5"], ["int", "10"]]], ["tuple", [["int", "15"], ["int", "20"]]], ["tuple", [["int", "25"], ["int", "30"]]], ["tuple", [["int", "35"], ["int", "40"]]]]], ["tuple", [["int", "4"], ["int", "3"]]], ["str", "'int16'"], ["str", "'IU2'"], ["int", "2"], ["dict", [[["int", "0"], ["dict", [[["str", "'offset'"], ["int", "5"]], [["str", "'size'"], ["int", "15"]]]]], [["int", "1"], ["dict", [[["str", "'offset'"], ["int", "25"]], [["str", "'size'"], ["int", "15"]]]]]]]]],
 "backend-type-none-rpcNone": ["returned", ["Array", "DirFileSystem", ["str", "'/path/to'"], "MemoryFileSystem", ["str", "'file'"], ["list", [["tuple", [["int", "5"], ["int", "10"]]], ["tuple", [["int", "15"], ["int", "20"]]], ["tuple", [["int", "25"], ["int", "30"]]], ["tuple", [["int", "35"], ["int", "40"]]]]], ["tuple", [["int", "4"], ["int", "3"]]], ["str", "'int16'"], ["str", "'IU2'"], ["int", "1024"], ["dict", [[["int", "0"], ["dict", [[["str", "'offset'"], ["int", "5"]], [["str", "'size'"], ["int", "35"]]]]]]]]],
 "backend-type-variable-rpc2": ["returned", ["Array", "DirFileSystem", ["str", "'/path/to'"], "MemoryFileSystem", ["str", "'file'"], ["list", [["tuple", [["int", "5"], ["int", "10"]]], ["tuple", [["int", "15"], ["int", "20"]]], ["tuple", [["int", "25"], ["int", "30"]]], ["tuple", [["int", "35"], ["int", "40"]]]]], ["tuple", [["int", "4"], ["int", "3"]]], ["str", "'int16'"], ["str", "'IU2'"], ["int", "2"], ["dict", [[["int", "0"], ["dict", [[["str", "'offset'"], ["int", "5"]], [["str", "'size'"], ["int", "15"]]]]], [["int", "1"], ["dict", [[["str", "'offset'"], ["int", "25"]], [["str", "'size'"], ["int", "15"]]]]]]]]],
 "backend-type-variable-rpcNone": ["returned", ["Array", "DirFileSystem", ["str", "'/path/to'"], "MemoryFileSystem", ["str", "'file'"], ["list", [["tuple", [["int", "5"], ["int", "10"]]], ["tuple", [["int", "15"], ["int", "20"]]], ["tuple", [["int", "25"], ["int", "30"]]], ["tuple", [["int", "35"], ["int", "40"]]]]], ["tuple", [["int", "4"], ["int", "3"]]], ["str", "'int16'"], ["str", "'IU2'"], ["int", "1024"], ["dict", [[["int", "0"], ["dict", [[["str", "'offset'"], ["int", "5"]], [["str", "'size'"], ["int", "35"]]]]]]]]],
 "backend-unknown-type-code-rpc2": ["returned", ["Array", "DirFileSystem", ["str", "'/path/to'"], "MemoryFileSystem", ["str", "'file'"], ["list", [["tuple", [["int", "5"], ["int", "10"]]], ["tuple", [["int", "15"], ["int", "20"]]], ["tuple", [["int", "25"], ["int", "30"]]], ["tuple", [["int", "35"], ["int", "40"]]]]], ["tuple", [["int", "4"], ["int", "3"]]], ["str", "'int16'"], ["str", "'XX'"], ["int", "2"], ["dict", [[["int", "0"], ["dict", [[["str", "'offset'"], ["int", "5"]], [["str", "'size'"], ["int", "15"]]]]], [["int", "1"], ["dict", [[["str", "'offset'"], ["int", "25"]], [["str", "'size'"], ["int", "15"]]]]]]]]],
 "backend-unknown-type-code-rpcNone": ["returned", ["Array", "DirFileSystem", ["str", "'/path/to'"], "MemoryFileSystem", ["str", "'file'"], ["list", [["tuple", [["int", "5"], ["int", "10"]]], ["tuple", [["int", "15"], ["int", "20"]]], ["tuple", [["int", "25"], ["int", "30"]]], ["tuple", [["int", "35"], ["int", "40"]]]]], ["tuple", [["int", "4"], ["int", "3"]]], ["str", "'int16'"], ["str", "'XX'"], ["int", "1024"], ["dict", [[["int", "0"], ["dict", [[["str", "'offset'"], ["int", "5"]], [["str", "'size'"], ["int", "35"]]]]]]]]],
 "datetime-10ms": ["returned", ["ndarray", "datetime64[10ms]", [2], [["2019-01-01T00:01:00.000", 154630086000], ["2019-01-02T00:02:00.000", 154638732000]]]],
 "datetime-25s": ["returned", ["ndarray", "datetime64[25s]", [3], [["2019-01-01T00:00:50", 61852034], ["2019-01-02T00:01:40", 61855492], ["2018-12-31T23:59:35", 61852031]]]],
 "datetime-2d": ["returned", ["ndarray", "datetime64[h]", [2, 1], [["2020-01-01T00", 438288], ["2020-01-03T00", 438336]]]],
 "datetime-D": ["returned", ["ndarray", "datetime64[D]", [3], [["2020-02-28", 18320], ["2020-02-29", 18321], ["2020-03-01", 18322]]]],
 "datetime-access-order": ["returned", ["list", [["ndarray", "datetime64[D]", [2], [["2020-01-01", 18262], ["2020-01-03", 18264]]], ["list", [["tuple", [["str", "'getitem'"], ["str", "'encoding'"]]], ["tuple", [["str", "'getitem'"], ["str", "'dtype'"]]], ["tuple", [["str", "'getitem'"], ["str", "'data'"]]]]], ["list", [["tuple", [["str", "'getitem'"], ["str", "'reference'"]]], ["tuple", [["str", "'getitem'"], ["str", "'units'"]]]]]]]],
 "datetime-bad-dtype": ["raised", [["TypeError", "data type 'datetime65[s]' not understood"]]],
 "datetime-bad-reference": ["raised", [["ValueError", "Error parsing datetime string \"yesterday\" at position 0"]]],
 "datetime-bad-units": ["raised", [["TypeError", "Invalid datetime unit in metadata string \"[parsec]\""]]],
 "datetime-dtype-object": ["returned", ["ndarray", "datetime64[us]", [1], [["2020-01-01T00:00:00.000007", 1577836800000007]]]],
 "datetime-empty": ["returned", ["ndarray", "datetime64[s]", [0], []]],
 "datetime-empty-encoding": ["raised", [["KeyError", "'reference'"]]],
 "datetime-float-offsets": ["raised", [["ValueError", "Could not convert object to NumPy timedelta"]]],
 "datetime-int-dtype": ["returned", ["ndarray", "timedelta64[s]", [2], [["5 seconds", 5], ["6 seconds", 6]]]],
 "datetime-int-units": ["raised", [["TypeError", "Invalid datetime metadata string \"[5]\" at position 2"]]],
 "datetime-missing-data": ["raised", [["KeyError", "'data'"]]],
 "datetime-missing-data-and-units": ["raised", [["KeyError", "'data'"]]],
 "datetime-missing-dtype": ["raised", [["KeyError", "'dtype'"]]],
 "datetime-missing-encoding": ["raised", [["KeyError", "'encoding'"]]],
 "datetime-missing-everything": ["raised", [["KeyError", "'encoding'"]]],
 "datetime-missing-reference": ["raised", [["KeyError", "'reference'"]]],
 "datetime-missing-reference-and-dtype": ["raised", [["KeyError", "'reference'"]]],
 "datetime-missing-units": ["raised", [["KeyError", "'units'"]]],
 "datetime-ms": ["returned", ["ndarray", "datetime64[ms]", [3], [["2019-01-01T00:01:00.000", 1546300860000], ["2019-01-02T00:02:00.000", 1546387320000], ["2018-12-31T23:59:59.000", 1546300799000]]]],
 "datetime-nat-offset": ["returned", ["ndarray", "datetime64[s]", [2], [["2020-01-01T00:00:00", 1577836800], ["NaT", -9223372036854775808]]]],
 "datetime-nat-reference": ["returned", ["ndarray", "datetime64[s]", [2], [["NaT", -9223372036854775808], ["NaT", -9223372036854775808]]]],
 "datetime-none-units": ["raised", [["TypeError", "Invalid datetime unit in metadata string \"[None]\""]]],
 "datetime-ns": ["returned", ["ndarray", "datetime64[ns]", [3], [["2019-01-01T00:00:00.000000000", 1546300800000000000], ["2019-01-01T00:00:00.000000001", 1546300800000000001], ["2019-01-01T00:00:00.000000002", 1546300800000000002]]]],
 "datetime-s": ["returned", ["ndarray", "datetime64[s]", [2], [["2019-01-01T00:00:00", 1546300800], ["2020-01-01T00:00:00", 1577836800]]]],
 "datetime-scalar-data": ["returned", ["datetime64", "2019-01-01T00:00:05"]],
 "datetime-str-offsets": ["raised", [["ValueError", "Could not convert object to NumPy timedelta"]]],
 "datetime-timedelta-dtype": ["returned", ["ndarray", "timedelta64[s]", [2], [["5 seconds", 5], ["6 seconds", 6]]]],
 "datetime-units-coarser-than-dtype": ["returned", ["ndarray", "datetime64[ms]", [3], [["2019-01-01T00:00:00.000", 1546300800000], ["2019-01-01T00:00:01.000", 1546300801000], ["2019-01-01T00:00:02.000", 1546300802000]]]],
 "datetime-units-finer-than-dtype": ["returned", ["ndarray", "datetime64[ms]", [2], [["2019-01-01T00:00:00.000", 1546300800000], ["2019-01-01T00:00:01.500", 1546300801500]]]],
 "decode-array-json": ["returned", ["Variable", ["list", [["str", "'t'"]]], ["ndarray", "datetime64[25s]", [3], [["2019-01-01T00:00:50", 61852034], ["2019-01-02T00:01:40", 61855492], ["2018-12-31T23:59:35", 61852031]]], ["dict", [[["str", "'r'"], ["tuple", [["int", "1"], ["int", "2"]]]]]]]],
 "json-hook-broken-tuple": ["raised", [["KeyError", "'data'"]]],
 "json-hook-list-type": ["returned", ["dict", [[["str", "'__type__'"], ["list", [["str", "'tuple'"]]]], [["str", "'data'"], ["list", [["int", "1"]]]]]]],
 "json-hook-nested": ["returned", ["dict", [[["str", "'a'"], ["tuple", [["dict", [[["str", "'b'"], ["tuple", [["int", "1"]]]]]]]]]]]],
 "json-hook-plain": ["returned", ["dict", [[["str", "'a'"], ["list", [["int", "1"], ["int", "2"]]]], [["str", "'b'"], ["NoneType", "None"]]]]],
 "json-hook-scalar-tuple": ["raised", [["TypeError", "'float' object is not iterable"]]],
 "json-hook-tuple": ["returned", ["tuple", [["int", "1"], ["list", [["int", "2"]]], ["tuple", []]]]],
 "postprocess-access-order": ["returned", ["list", [["tuple", [["int", "1"]]], ["list", [["tuple", [["str", "'get'"], ["str", "'__type__'"]]], ["tuple", [["str", "'getitem'"], ["str", "'data'"]]]]], ["bool", "True"], ["list", [["tuple", [["str", "'get'"], ["str", "'__type__'"]]]]]]]],
 "postprocess-array": ["returned", ["dict", [[["str", "'__type__'"], ["str", "'array'"]], [["str", "'data'"], ["list", [["int", "1"]]]]]]],
 "postprocess-empty": ["returned", ["dict", []]],
 "postprocess-identity": ["returned", ["list", [["bool", "True"], ["bool", "True"], ["bool", "True"]]]],
 "postprocess-list": ["raised", [["AttributeError", "'list' object has no attribute 'get'"]]],
 "postprocess-no-type": ["returned", ["dict", [[["str", "'data'"], ["list", [["int", "1"], ["int", "2"]]]]]]],
 "postprocess-none": ["raised", [["AttributeError", "'NoneType' object has no attribute 'get'"]]],
 "postprocess-ordered": ["returned", ["tuple", [["int", "3"], ["int", "4"]]]],
 "postprocess-other-type": ["returned", ["dict", [[["str", "'__type__'"], ["str", "'Tuple'"]], [["str", "'data'"], ["list", [["int", "1"]]]]]]],
 "postprocess-tuple": ["returned", ["tuple", [["int", "1"], ["int", "2"]]]],
 "postprocess-tuple-data-int": ["raised", [["TypeError", "'int' object is not iterable"]]],
 "postprocess-tuple-data-none": ["raised", [["TypeError", "'NoneType' object is not iterable"]]],
 "postprocess-tuple-empty": ["returned", ["tuple", []]],
 "postprocess-tuple-extra-keys": ["returned", ["tuple", [["int", "1"]]]],
 "postprocess-tuple-from-dict": ["returned", ["tuple", [["str", "'a'"], ["str", "'b'"]]]],
 "postprocess-tuple-from-str": ["returned", ["tuple", [["str", "'a'"], ["str", "'b'"], ["str", "'c'"]]]],
 "postprocess-tuple-nested-list": ["returned", ["tuple", [["list", [["int", "1"]]], ["tuple", [["int", "2"]]]]]],
 "postprocess-tuple-no-data": ["raised", [["KeyError", "'data'"]]],
 "postprocess-type-bytes": ["returned", ["dict", [[["str", "'__type__'"], ["bytes", "b'tuple'"]], [["str", "'data'"], ["list", [["int", "1"]]]]]]],
 "postprocess-type-int": ["returned", ["dict", [[["str", "'__type__'"], ["int", "0"]], [["str", "'data'"], ["list", [["int", "1"]]]]]]],
 "postprocess-type-list": ["returned", ["dict", [[["str", "'__type__'"], ["list", [["str", "'tuple'"]]]], [["str", "'data'"], ["list", [["int", "1"]]]]]]],
 "postprocess-type-none": ["returned", ["dict", [[["str", "'__type__'"], ["NoneType", "None"]], [["str", "'data'"], ["list", [["int", "1"]]]]]]],
 "postprocess-type-tuple": ["returned", ["dict", [[["str", "'__type__'"], ["tuple", [["str", "'tuple'"]]]], [["str", "'data'"], ["list", [["int", "1"]]]]]]]
}
'''


def test_equivalence():
    main(cases, EXPECTED)


if __name__ == "__main__":
    main(cases, EXPECTED)
